"""Tag simulators (hand-written environment models, part of every claim that
uses them).  Loaded through the symx loader in symbolic mode, so `bytearray`
here yields symbolic-capable byte strings; natively it is the builtin.

Each simulator offers exchange(cmd, timeout) the way a driver's
send_cmd_recv_rsp behaves: returns the response bytes or raises
nfc.clf.TimeoutError (tag mute / gone).  A `hook(sim, cmd)` callable installed by
the harness runs at the start of every exchange and may raise a
CommunicationError (fault injection) or cut power.
"""
import nfc.clf


class TooManyCommands(BaseException):
    """the reader exceeded the command budget the harness set (the way a
    harness turns an endless command loop into an observable event)"""


class SimBase(object):
    max_cmds = None

    def __init__(self):
        self.ncmd = 0            # commands received
        self.log = []            # (kind, addr) of every command executed
        self.writes = []         # (addr, [old items], [new items]) of executed writes
        self.hook = None
        self.sent = []           # (command bytes, answered?) of commands that reached the tag
        self.gone = False        # power cut: nothing answers any more
        self.mute = False        # needs re-activation (sense) after an error

    def exchange(self, cmd, timeout):
        self.ncmd += 1
        if self.max_cmds is not None and self.ncmd > self.max_cmds:
            raise TooManyCommands()
        if self.gone:
            raise nfc.clf.TimeoutError("tag gone")
        if getattr(self, "outage_left", 0) > 0:
            # out of the field for a moment: this many exchanges get no answer
            self.outage_left -= 1
            raise nfc.clf.TimeoutError("tag out of the field for a moment")
        drop = None
        if self.hook is not None:
            drop = self.hook(self, cmd)      # may raise (command lost)
        if self.gone or self.mute:
            raise nfc.clf.TimeoutError("tag mute")
        self.sent.append((list(cmd), False))
        rsp = self.execute(cmd)
        if drop is not None:
            raise drop                       # executed, response lost/garbled
        self.sent[-1] = (self.sent[-1][0], True)
        return rsp

    def resense(self):
        """reader sensed again: tag leaves the mute state if still powered"""
        if self.gone:
            return False
        self.mute = False
        return True


class SimClf(object):
    """what a tag object needs from a ContactlessFrontend"""

    def __init__(self, sim):
        self.sim = sim
        self.nsense = 0
        self.target = True       # the tag was sensed before activation

    def exchange(self, data, timeout):
        if self.target is None:
            # ContactlessFrontend.exchange(): "no target for data exchange"
            return None
        return self.sim.exchange(data, timeout)

    def sense(self, *targets, **kw):
        self.nsense += 1
        # like ContactlessFrontend.sense(): the previous target is forgotten
        self.target = None
        if self.sim.resense():
            self.target = targets[0]
        return self.target

    @property
    def max_send_data_size(self):
        return getattr(self.sim, 'max_send', 290)

    @property
    def max_recv_data_size(self):
        return getattr(self.sim, 'max_recv', 290)


# ----------------------------------------------------------------------------
# Type 2 Tag
# ----------------------------------------------------------------------------
class Tt2Sim(SimBase):
    """byte memory, 4-byte pages, 1 KiB sectors.  READ returns 16 bytes and
    rolls over to the start of memory at the end; READ/WRITE beyond the
    physical size is NAKed and leaves the tag mute until sensed again; an
    unknown command leaves the tag mute.  Plain memory: lock bits and OTP are
    not interpreted."""
    ACK = 0x0A

    def __init__(self, mem, uid=b"\x01\x02\x03\x04\x05\x06\x07", version=None):
        SimBase.__init__(self)
        self.mem = mem
        self.sector = 0
        self.sector_pending = False
        self.uid = uid
        self.version = version      # GET_VERSION answer of NXP products

    def nak(self):
        self.mute = True
        if getattr(self, "gone_after_nak", False):
            self.gone = True     # taken out of the field right after the NAK
        return bytearray([0x00])

    def is_write(self, cmd):
        return cmd[0] == 0xA2 and not self.sector_pending

    def execute(self, cmd):
        if self.sector_pending:
            # second packet of SECTOR SELECT: passive ack (no answer) when
            # the sector exists, NAK otherwise.  The tag waits for it for 1 ms
            # only: any other command arriving later finds the tag back in
            # its normal state, still in the old sector.
            self.sector_pending = False
            if len(cmd) == 4:
                sector = cmd[0]
                if sector * 1024 < len(self.mem):
                    self.sector = sector
                    self.log.append(("sector", sector))
                    raise nfc.clf.TimeoutError("passive ack")
                return self.nak()
        op = cmd[0]
        if op == 0x30 and len(cmd) == 2:
            addr = self.sector * 1024 + cmd[1] * 4
            if addr >= len(self.mem):
                return self.nak()
            self.log.append(("read", addr))
            n = len(self.mem)
            return bytearray([self.mem[(addr + i) % n] for i in range(16)])
        if op == 0xA2 and len(cmd) == 6:
            addr = self.sector * 1024 + cmd[1] * 4
            if addr >= len(self.mem):
                return self.nak()
            new = [cmd[2 + i] for i in range(4)]
            self.writes.append((addr, self.mem[addr:addr + 4], new))
            self.log.append(("write", addr))
            self.mem[addr:addr + 4] = new
            return bytearray([self.ACK])
        if op == 0x60 and len(cmd) == 1 and self.version is not None:
            self.log.append(("version", 0))
            return bytearray(self.version)
        if op == 0xC2 and len(cmd) == 2 and cmd[1] == 0xFF:
            if len(self.mem) > 1024:
                self.sector_pending = True
                return bytearray([self.ACK])
            return self.nak()
        self.mute = True
        raise nfc.clf.TimeoutError("unknown command")


NXP_PRODUCTS = {
    # name: (GET_VERSION answer, pages, CC size byte)
    "NTAG213": (b"\x00\x04\x04\x02\x01\x00\x0F\x03", 45, 0x12),
    "NTAG215": (b"\x00\x04\x04\x02\x01\x00\x11\x03", 135, 0x3E),
    "NTAG216": (b"\x00\x04\x04\x02\x01\x00\x13\x03", 231, 0x6D),
    "MF0UL21": (b"\x00\x04\x03\x01\x01\x00\x0E\x03", 41, 0x10),
    # NTAG203 has no GET_VERSION: the command is NAKed (one byte 00h)
    "NTAG203": (b"\x00", 42, 0x12),
}


def tt2_target(uid=b"\x01\x02\x03\x04\x05\x06\x07"):
    t = nfc.clf.RemoteTarget("106A")
    t.sens_res = bytearray(b"\x44\x00")
    t.sel_res = bytearray(b"\x00")
    t.sdd_res = bytearray(uid)
    return t


# ----------------------------------------------------------------------------
# Type 1 Tag
# ----------------------------------------------------------------------------
class Tt1Sim(SimBase):
    """Topaz-style tag: HR0/HR1, 120 bytes static memory (HR0 low nibble 1) or
    more (dynamic, 8-byte block commands).  WRITE-E erases then writes,
    WRITE-NE ORs.  Reads beyond the physical memory return zeros and writes
    there are ignored (the tag still answers; the command is logged).  Commands with another UID or
    unsupported commands get no answer.  Lock/OTP bytes are plain memory."""

    def __init__(self, mem, hr0, hr1):
        SimBase.__init__(self)
        self.mem = mem
        self.hr = [hr0, hr1]
        self.dynamic = (hr0 & 0x0F) != 1

    def uid(self):
        return self.mem[0:4]

    def is_write(self, cmd):
        return cmd[0] in (0x53, 0x1A, 0x54, 0x1B)

    def _uid_ok(self, cmd):
        return list(cmd[-4:]) == list(self.mem[0:4])

    def _store(self, addr, new, erase):
        if addr + len(new) > len(self.mem):
            # nothing is stored, but the command was sent: it is in the log
            # of write commands (C03 judges the addresses of write commands)
            self.writes.append((addr, [0] * len(new), list(new)))
            return [0] * len(new)
        old = self.mem[addr:addr + len(new)]
        if not erase:
            new = [o | n for o, n in zip(old, new)]
        self.writes.append((addr, old, list(new)))
        self.mem[addr:addr + len(new)] = list(new)
        return list(new)

    def execute(self, cmd):
        op = cmd[0]
        if op == 0x78 and len(cmd) == 7:
            self.log.append(("rid", 0))
            return bytearray(self.hr + self.mem[0:4])
        if len(cmd) >= 7 and not self._uid_ok(cmd):
            raise nfc.clf.TimeoutError("other uid")
        if op == 0x00 and len(cmd) == 7:
            self.log.append(("rall", 0))
            return bytearray(self.hr + self.mem[0:120])
        if op == 0x01 and len(cmd) == 7:
            addr = cmd[1] & 0x7F
            self.log.append(("read", addr))
            v = self.mem[addr] if addr < len(self.mem) else 0
            return bytearray([addr, v])
        if op in (0x53, 0x1A) and len(cmd) == 7:
            addr = cmd[1] & 0x7F
            self.log.append(("write", addr))
            new = self._store(addr, [cmd[2]], op == 0x53)
            return bytearray([addr] + new)
        if self.dynamic and op == 0x10 and len(cmd) == 14:
            seg = cmd[1] >> 4
            self.log.append(("rseg", seg))
            d = [self.mem[seg * 128 + i] if seg * 128 + i < len(self.mem) else 0
                 for i in range(128)]
            return bytearray([cmd[1]] + d)
        if self.dynamic and op == 0x02 and len(cmd) == 14:
            blk = cmd[1]
            self.log.append(("read8", blk))
            d = [self.mem[blk * 8 + i] if blk * 8 + i < len(self.mem) else 0
                 for i in range(8)]
            return bytearray([blk] + d)
        if self.dynamic and op in (0x54, 0x1B) and len(cmd) == 14:
            blk = cmd[1]
            self.log.append(("write8", blk))
            new = self._store(blk * 8, [cmd[2 + i] for i in range(8)], op == 0x54)
            return bytearray([blk] + new)
        raise nfc.clf.TimeoutError("unsupported command")


def tt1_target(sim):
    t = nfc.clf.RemoteTarget("106A")
    t.sens_res = bytearray(b"\x00\x0C")
    t.rid_res = bytearray(sim.hr + sim.mem[0:4])
    return t


# ----------------------------------------------------------------------------
# Type 3 Tag
# ----------------------------------------------------------------------------
class Tt3Sim(SimBase):
    """FeliCa style tag with one NDEF system (12FCh): 16-byte blocks, service
    000Bh (read) and 0009h (read/write) without encryption.  Written from the
    FeliCa command formats: Polling, Read/Write Without Encryption with its
    own service/block list parsing; per-command block limits; status flags
    FFh/A1h-A8h for illegal lists.  mem is a flat list, block b at b*16.
    standard=True adds the key-less commands of a FeliCa Standard card (see
    execute_standard)."""

    def __init__(self, mem, idm, pmm, max_read=15, max_write=13, sys=0x12FC,
                 standard=False):
        SimBase.__init__(self)
        self.mem = mem
        self.idm = list(idm)
        self.pmm = list(pmm)
        self.max_read = max_read
        self.max_write = max_write
        self.sys = sys
        # standard=True: a FeliCa Standard / Mobile FeliCa card (FeliCa Card
        # User's Manual, Excerpted Edition) with the additional commands
        # Request Service (02h), Request Response (04h), Search Service Code
        # (0Ah) and Request System Code (0Ch).  File system: the one system
        # `sys`, area 0 (0000h..FFFEh) and the two NDEF services 0009h /
        # 000Bh (random service, read/write and read only, without key).
        # The card stays in Mode 0 (no authentication commands).
        self.standard = standard
        self.nodes = [(0x0000, 0xFFFE), (0x0009,), (0x000B,)]
        self.mode = 0

    def is_write(self, cmd):
        return len(cmd) > 1 and cmd[1] == 0x08

    def nblocks(self):
        return len(self.mem) // 16

    def _rsp(self, code, body):
        return bytearray([2 + 8 + len(body), code] + self.idm + list(body))

    def _lists(self, d):
        """parse service list and block list -> (services, blocks, rest)"""
        pos = 0
        nsvc = d[pos]
        pos += 1
        if not 1 <= nsvc <= 16:
            return None, 0xA1, None
        svcs = []
        for i in range(nsvc):
            svcs.append(d[pos] | (d[pos + 1] << 8))
            pos += 2
        nblk = d[pos]
        pos += 1
        if nblk == 0:
            return None, 0xA2, None
        blocks = []
        for i in range(nblk):
            b0 = d[pos]
            if b0 & 0x80:
                num = d[pos + 1]
                pos += 2
            else:
                num = d[pos + 1] | (d[pos + 2] << 8)
                pos += 3
            order = b0 & 0x0F
            if order >= nsvc:
                return None, 0xA3, None
            if (b0 >> 4) & 7:
                return None, 0xA7, None      # access mode must be 0
            blocks.append((svcs[order], num))
        return blocks, 0, d[pos:]

    def execute(self, cmd):
        if len(cmd) < 2 or cmd[0] != len(cmd):
            raise nfc.clf.TimeoutError("length")
        code = cmd[1]
        if code == 0x00 and len(cmd) == 6:
            sysc = (cmd[2] << 8) | cmd[3]
            if sysc != self.sys and sysc != 0xFFFF and \
                    not (cmd[2] == 0xFF and cmd[3] == (self.sys & 0xFF)) and \
                    not (cmd[3] == 0xFF and cmd[2] == (self.sys >> 8)):
                raise nfc.clf.TimeoutError("other system")
            self.log.append(("poll", sysc))
            body = self.idm + self.pmm
            if cmd[4] == 1:
                body = body + [self.sys >> 8, self.sys & 0xFF]
            elif cmd[4] == 2:
                body = body + [0x00, 0x83]
            return bytearray([2 + len(body), 0x01] + body)
        if len(cmd) < 10 or list(cmd[2:10]) != self.idm:
            raise nfc.clf.TimeoutError("other idm")
        d = cmd[10:]
        if code == 0x06:
            blocks, err, rest = self._lists(d)
            if blocks is None:
                return self._rsp(0x07, [0xFF, err])
            if len(blocks) > self.max_read:
                return self._rsp(0x07, [0xFF, 0xA2])
            out = []
            for i, (svc, num) in enumerate(blocks):
                if svc not in (0x000B, 0x0009):
                    return self._rsp(0x07, [1 << (i % 8), 0xA6])
                if num >= self.nblocks():
                    return self._rsp(0x07, [1 << (i % 8), 0xA8])
                out += self.mem[num * 16:num * 16 + 16]
                self.log.append(("read", num))
            return self._rsp(0x07, [0, 0, len(blocks)] + out)
        if code == 0x08:
            blocks, err, rest = self._lists(d)
            if blocks is None:
                return self._rsp(0x09, [0xFF, err])
            if len(blocks) > self.max_write or len(rest) != 16 * len(blocks):
                return self._rsp(0x09, [0xFF, 0xA2])
            for i, (svc, num) in enumerate(blocks):
                if svc != 0x0009:
                    return self._rsp(0x09, [1 << (i % 8), 0xA6])
                if num >= self.nblocks():
                    return self._rsp(0x09, [1 << (i % 8), 0xA8])
            for i, (svc, num) in enumerate(blocks):
                new = [rest[i * 16 + j] for j in range(16)]
                self.writes.append((num * 16, self.mem[num * 16:num * 16 + 16], new))
                self.mem[num * 16:num * 16 + 16] = new
                self.log.append(("write", num))
            return self._rsp(0x09, [0, 0])
        if self.standard:
            rsp = self.execute_standard(code, d)
            if rsp is not None:
                return rsp
        raise nfc.clf.TimeoutError("unsupported command")

    def execute_standard(self, code, d):
        """commands of the FeliCa Standard command set that need no key;
        d = command data behind the IDm.  A malformed command gets no answer"""
        if code == 0x04 and len(d) == 0:
            # Request Response -> 05h IDm Mode
            self.log.append(("request_response", self.mode))
            return self._rsp(0x05, [self.mode])
        if code == 0x0C and len(d) == 0:
            # Request System Code -> 0Dh IDm n, n system codes (big endian)
            self.log.append(("request_system_code", 0))
            return self._rsp(0x0D, [1, self.sys >> 8, self.sys & 0xFF])
        if code == 0x0A and len(d) == 2:
            # Search Service Code, index little endian -> area code + end
            # service code (area), service code (service), FFFFh (no more)
            index = d[0] | (d[1] << 8)
            self.log.append(("search_service_code", index))
            if index >= len(self.nodes):
                return self._rsp(0x0B, [0xFF, 0xFF])
            body = []
            for v in self.nodes[index]:
                body += [v & 0xFF, v >> 8]
            return self._rsp(0x0B, body)
        if code == 0x02 and len(d) >= 1 and 1 <= d[0] <= 32 and len(d) == 1 + 2 * d[0]:
            # Request Service -> 03h IDm n, n key versions (little endian);
            # FFFFh for a node that does not exist, 0000h for one without key
            self.log.append(("request_service", d[0]))
            known = [n[0] for n in self.nodes]
            body = [d[0]]
            for i in range(d[0]):
                node = d[1 + 2 * i] | (d[2 + 2 * i] << 8)
                body += [0x00, 0x00] if node in known else [0xFF, 0xFF]
            return self._rsp(0x03, body)
        return None


def tt3_target(sim, with_sys=True):
    t = nfc.clf.RemoteTarget("212F")
    body = [0x01] + sim.idm + sim.pmm
    if with_sys:
        body += [sim.sys >> 8, sim.sys & 0xFF]
    t.sensf_res = bytearray(body)
    return t


class Tt3EmuSim(SimBase):
    """the library's own Type3TagEmulation as the tag: the reader's exchange
    hands each command to process_command(); block services are byte-array
    closures as in examples/tagtool.py"""

    def __init__(self, mem, idm, pmm, sys=0x12FC):
        import nfc.tag.tt3
        SimBase.__init__(self)
        self.mem = mem
        self.idm, self.pmm, self.sys = list(idm), list(pmm), sys
        target = nfc.clf.LocalTarget("212F")
        target.sensf_res = bytearray([0x01] + self.idm + self.pmm +
                                     [sys >> 8, sys & 0xFF])
        target.tt3_cmd = bytearray([0x00, 0x12, 0xFC, 0x00, 0x00])
        self.emu = nfc.tag.tt3.Type3TagEmulation(None, target)

        def ndef_read(block_number, rb, re):
            if block_number < len(self.mem) // 16:
                self.log.append(("read", block_number))
                return bytearray(self.mem[block_number * 16:block_number * 16 + 16])

        def ndef_write(block_number, block_data, wb, we):
            if block_number < len(self.mem) // 16:
                new = [block_data[j] for j in range(16)]
                a = block_number * 16
                self.writes.append((a, self.mem[a:a + 16], new))
                self.mem[a:a + 16] = new
                self.log.append(("write", block_number))
                return True

        self.emu.add_service(0x0009, ndef_read, ndef_write)
        self.emu.add_service(0x000B, ndef_read, None)

    def is_write(self, cmd):
        return len(cmd) > 1 and cmd[1] == 0x08

    def execute(self, cmd):
        rsp = self.emu.process_command(bytearray(cmd))
        if rsp is None:
            raise nfc.clf.TimeoutError("no response")
        return bytearray(rsp)


# ----------------------------------------------------------------------------
# Type 4 Tag: ISO/IEC 14443-4 PICC block protocol + ISO/IEC 7816-4 files
# ----------------------------------------------------------------------------
FSC_TABLE = (16, 24, 32, 40, 48, 64, 96, 128, 256)


class Tt4Card(SimBase):
    """Written from the standards, not from the reader code.

    Block protocol (ISO/IEC 14443-4 7.5.4.3, PICC rules): block number starts
    at 1 (rule C); toggled on every I-block received (rule D) and on an R(ACK)
    whose number differs from the current one (rule E), before sending;
    I-block with chaining -> R(ACK); last/only I-block -> the command is
    executed and answered with I-block(s), the response chained in pieces of
    `tx_size` bytes; R(ACK)/R(NAK) with the current block number -> last block
    re-transmitted (rule 11); R(NAK) with the other number -> R(ACK) (rule
    12); R(ACK) with the other number while chaining -> next piece (rule 13);
    optional S(WTX) request before a response.  A frame longer than FSC is
    ignored (no answer).

    Application: NFC Forum Type 4 Tag, mapping version 2.0 (NLEN 2 bytes,
    file control TLV 04) or 3.0 (NLEN 4 bytes, TLV 06): SELECT by AID / by
    FID, READ BINARY, UPDATE BINARY with strict Le <= MLe, Lc <= MLc and file
    size checks.  files: {fid(int): list of byte items}.
    """

    def __init__(self, files, mle, mlc, fsci=8, fwi=4, typ="A", aid_v=2,
                 tx_size=None, wtx_at=(), uid=b"\x08\x01\x02\x03"):
        SimBase.__init__(self)
        self.files = files
        self.mle, self.mlc = mle, mlc
        self.fsci, self.fwi, self.typ, self.aid_v = fsci, fwi, typ, aid_v
        self.fsc = FSC_TABLE[fsci]
        self.tx_size = tx_size if tx_size is not None else 253
        self.wtx_at = set(wtx_at)      # indices of APDUs answered after one S(WTX)
        self.uid = uid
        self.activated = False
        self.bn = 1
        self.last = None               # last block sent
        self.rx = []                   # chained command so far
        self.tx = []                   # response pieces still to send
        self.pending = None            # response held back behind S(WTX)
        self.app = False
        self.cur = None
        self.executed = []             # APDUs executed (list of byte lists)
        self.responses = []            # their responses
        self.blocks_seen = []          # lengths of frames received while activated
        self.wtx_in_chain = False      # one S(WTX) request between two response pieces
        self.script = None             # responses of the proprietary test applet
        self.script_seen = []
        self.base = {}                 # flat address space for write logs
        pos = 0
        for fid in sorted(files):
            self.base[fid] = pos
            pos += len(files[fid])

    @property
    def mem(self):
        out = []
        for fid in sorted(self.files):
            out += self.files[fid]
        return out

    # -- what a harness needs
    def is_write(self, cmd):
        return self.activated and len(cmd) > 2 and (cmd[0] & 0xE2) == 0x02 and \
            self._is_update(cmd)

    def _is_update(self, cmd):
        data = self.rx + list(cmd[1:])
        return len(data) > 1 and data[1] == 0xD6 and not (cmd[0] & 0x10)

    def snapshot_files(self):
        return dict((k, list(v)) for k, v in self.files.items())

    # -- activation
    def ats(self):
        # ats_layout: which of the interface bytes TA(1), TB(1), TC(1) the
        # ATS carries (any subset is standard-conformant; without TB(1) the
        # default FWI 4 applies)
        layout = getattr(self, "ats_layout", "ABC")
        t0 = self.fsci | (0x10 if "A" in layout else 0) | (0x20 if "B" in layout else 0) | \
            (0x40 if "C" in layout else 0)
        body = [t0]
        if "A" in layout:
            body.append(0x80)
        if "B" in layout:
            body.append((self.fwi << 4) | 0x00)
        if "C" in layout:
            body.append(0x02)
        return [1 + len(body)] + body

    def announced_fwt(self):
        fwi = self.fwi if "B" in getattr(self, "ats_layout", "ABC") or self.typ == "B" else 4
        return 4096 / 13.56E6 * (2 ** fwi)

    def exchange(self, cmd, timeout):
        # busy_fraction: the card needs that fraction of its announced frame
        # waiting time to execute a command and does not listen meanwhile; a
        # reader that waits at least FWT never notices
        self.cur_timeout = timeout
        if getattr(self, "busy_left", 0) > 0:
            self.ncmd += 1
            if self.max_cmds is not None and self.ncmd > self.max_cmds:
                raise TooManyCommands()
            self.busy_left -= timeout
            raise nfc.clf.TimeoutError("card busy")
        return SimBase.exchange(self, cmd, timeout)

    def execute(self, cmd):
        if not self.activated:
            if self.typ == "A" and len(cmd) == 2 and cmd[0] == 0xE0:
                self.activated = True
                self.fsd = FSC_TABLE[min(cmd[1] >> 4, 8)]
                self.log.append(("rats", cmd[1]))
                return bytearray(self.ats())
            if self.typ == "B" and len(cmd) >= 9 and cmd[0] == 0x1D:
                self.activated = True
                self.fsd = FSC_TABLE[min(cmd[6] & 0x0F, 8)]
                self.log.append(("attrib", 0))
                return bytearray([0x00])
            raise nfc.clf.TimeoutError("not activated")
        self.blocks_seen.append(len(cmd))
        if len(cmd) + 2 > self.fsc or len(cmd) == 0:
            raise nfc.clf.TimeoutError("frame exceeds FSC")
        pcb = cmd[0]
        if (pcb & 0xE2) == 0x02:                    # I-block
            if pcb & 0x0C:
                raise nfc.clf.TimeoutError("CID/NAD not supported")
            self.bn ^= 1                            # rule D
            self.rx += list(cmd[1:])
            if pcb & 0x10:                          # chaining: acknowledge
                if getattr(self, "wtx_in_cmd_chain", False):
                    # ... after asking for more time first
                    self.wtx_in_cmd_chain = False
                    self.pending = "ack-chain"
                    return self._send(self._wtx_request())
                return self._send([0xA2 | self.bn])
            apdu, self.rx = self.rx, []
            k = len(self.executed)
            rsp = self._apdu(apdu)
            self.executed.append(apdu)
            self.responses.append(rsp)
            self.log.append(("apdu", k))
            if k in self.wtx_at:
                self.pending = rsp
                self.wtx_left = getattr(self, "wtx_count", 1) - 1
                return self._send(self._wtx_request())     # S(WTX) request
            frac = getattr(self, "busy_fraction", None)
            if frac:
                busy = frac * self.announced_fwt()
                if self.cur_timeout is not None and self.cur_timeout < busy:
                    # the reader stops waiting before the card has finished
                    self.busy_left = busy - self.cur_timeout
                    self._start_response(rsp)
                    raise nfc.clf.TimeoutError("card still busy")
            return self._start_response(rsp)
        if (pcb & 0xF6) == 0xA2 or (pcb & 0xF6) == 0xB2:    # R-block
            if len(cmd) != 1:
                raise nfc.clf.TimeoutError("R-block with INF")
            nak = bool(pcb & 0x10)
            if (pcb & 1) == self.bn:                # rule 11
                if self.last is None:
                    raise nfc.clf.TimeoutError("nothing to re-transmit")
                return bytearray(self.last)
            if nak:                                 # rule 12
                return self._send([0xA2 | self.bn])
            if self.tx:                             # rules E and 13
                self.bn ^= 1
                if self.wtx_in_chain:
                    # the card may ask for more time before any block
                    self.wtx_in_chain = False
                    self.pending = "next-piece"
                    return self._send(self._wtx_request())
                return self._next_piece()
            raise nfc.clf.TimeoutError("unexpected R(ACK)")
        if pcb == 0xF2 and len(cmd) == 2 and self.pending is not None:
            if cmd[1] & 0x3F != getattr(self, "wtx_wtxm", 1):
                # ISO/IEC 14443-4 7.3: the response carries the same WTXM.
                # (b8..b7 "shall be 00"; nfcpy echoes the card's power level
                # bits there - the model, like cards in the field, does not
                # look at them, so nothing is demanded of them)
                raise nfc.clf.TimeoutError("S(WTX) response with another WTXM")
            if getattr(self, "wtx_left", 0) > 0:
                # the card needs still more time: another S(WTX) request
                self.wtx_left -= 1
                return self._send(self._wtx_request())
            rsp, self.pending = self.pending, None
            if rsp == "ack-chain":
                return self._send([0xA2 | self.bn])
            if rsp == "next-piece":
                return self._next_piece()
            return self._start_response(rsp)
        if pcb == 0xC2:
            self.activated = False
            return bytearray([0xC2])
        raise nfc.clf.TimeoutError("unknown block")

    def _wtx_request(self):
        """S(WTX) request: INF = power level indication (b8..b7, any value is
        allowed to the card) | WTXM (1..59)"""
        return [0xF2, (getattr(self, "wtx_power", 0) << 6) | getattr(self, "wtx_wtxm", 1)]

    def _send(self, block):
        self.last = list(block)
        return bytearray(block)

    def _start_response(self, rsp):
        self.tx = [rsp[i:i + self.tx_size] for i in range(0, len(rsp), self.tx_size)]
        return self._next_piece()

    def _next_piece(self):
        piece = self.tx.pop(0)
        pcb = 0x02 | self.bn | (0x10 if self.tx else 0)
        return self._send([pcb] + list(piece))

    # -- ISO/IEC 7816-4
    def _sw(self, sw, data=()):
        return list(data) + [sw >> 8, sw & 0xFF]

    def _apdu(self, a):
        if self.script is not None and len(a) >= 1 and a[0] == 0x80:
            # test applet: the k-th proprietary APDU is answered with the
            # k-th scripted response; the command bytes are recorded
            k = len(self.script_seen)
            self.script_seen.append(list(a))
            if k < len(self.script):
                return list(self.script[k]) + [0x90, 0x00]
            return self._sw(0x6F00)
        if len(a) < 4 or a[0] != 0x00:
            return self._sw(0x6E00)
        ins, p1, p2 = a[1], a[2], a[3]
        body = a[4:]
        lc, data, le = 0, [], None
        if len(body) == 1:
            le = body[0] or 256
        elif len(body) > 1:
            lc = body[0]
            if len(body) == 1 + lc:
                data = body[1:]
            elif len(body) == 2 + lc:
                data = body[1:1 + lc]
                le = body[1 + lc] or 256
            else:
                return self._sw(0x6700)
        if ins == 0xA4:
            if p1 == 0x04:
                aid = [0xD2, 0x76, 0x00, 0x00, 0x85, 0x01, 0x01 if self.aid_v == 2 else 0x00]
                if list(data) == aid:
                    self.app, self.cur = True, None
                    return self._sw(0x9000)
                return self._sw(0x6A82)
            if p1 == 0x00 and self.app and len(data) == 2:
                fid = (data[0] << 8) | data[1]
                if fid in self.files:
                    self.cur = fid
                    return self._sw(0x9000)
            return self._sw(0x6A82)
        if ins in (0xB0, 0xD6) and (p1 & 0x80):
            # ISO/IEC 7816-4: with bit 8 of P1 set, bits 5-1 of P1 are a short
            # EF identifier (0 = current file) and P2 is the offset
            if p1 & 0x1F:
                return self._sw(0x6A82)      # no file with that short identifier
            p1 = 0
        if ins == 0xB0:
            if self.cur is None:
                return self._sw(0x6985)
            off = (p1 << 8) | p2
            f = self.files[self.cur]
            if le is None or le > self.mle:
                return self._sw(0x6700)
            if off > len(f):
                return self._sw(0x6B00)
            return self._sw(0x9000, f[off:off + le])
        if ins == 0xD6:
            if self.cur is None:
                return self._sw(0x6985)
            off = (p1 << 8) | p2
            f = self.files[self.cur]
            if lc == 0 or lc > self.mlc:
                return self._sw(0x6700)
            if off + lc > len(f):
                return self._sw(0x6A84)
            self.writes.append((self.base[self.cur] + off, f[off:off + lc], list(data)))
            f[off:off + lc] = list(data)
            return self._sw(0x9000)
        return self._sw(0x6D00)


def tt4_target(card):
    if card.typ == "A":
        t = nfc.clf.RemoteTarget("106A")
        t.sens_res = bytearray(b"\x44\x03")
        t.sel_res = bytearray(b"\x20")
        t.sdd_res = bytearray(card.uid)
    else:
        t = nfc.clf.RemoteTarget("106B")
        t.sensb_res = bytearray([0x50] + list(card.uid) + [0, 0, 0, 0] +
                                [0x00, (card.fsci << 4) | 0x01, (card.fwi << 4)])
    return t
