"""Tag simulators (hand-written environment models, part of every claim that
uses them).  Loaded through the symx loader in symbolic mode, so `bytearray`
here yields symbolic-capable byte strings; natively it is the builtin.

Each simulator offers exchange(cmd, timeout) the way a driver's
send_cmd_recv_rsp behaves: returns the response bytes or raises
nfc.clf.TimeoutError (tag mute / gone).  A `hook(sim, cmd)` callable installed by
the harness runs at the start of every exchange and may raise a
CommunicationError (fault injection) or cut power.
"""
import nfc.clf


class SimBase(object):
    def __init__(self):
        self.ncmd = 0            # commands received
        self.log = []            # (kind, addr) of every command executed
        self.writes = []         # (addr, [old items], [new items]) of executed writes
        self.hook = None
        self.gone = False        # power cut: nothing answers any more
        self.mute = False        # needs re-activation (sense) after an error

    def exchange(self, cmd, timeout):
        self.ncmd += 1
        if self.gone:
            raise nfc.clf.TimeoutError("tag gone")
        if self.hook is not None:
            self.hook(self, cmd)
        if self.gone or self.mute:
            raise nfc.clf.TimeoutError("tag mute")
        return self.execute(cmd)

    def resense(self):
        """reader sensed again: tag leaves the mute state if still powered"""
        if self.gone:
            return False
        self.mute = False
        return True


class SimClf(object):
    """what a tag object needs from a ContactlessFrontend"""

    def __init__(self, sim):
        self.sim = sim
        self.nsense = 0

    def exchange(self, data, timeout):
        return self.sim.exchange(data, timeout)

    def sense(self, *targets, **kw):
        self.nsense += 1
        if self.sim.resense():
            return targets[0]
        return None

    def max_send_data_size(self):
        return getattr(self.sim, 'max_send', 290)

    def max_recv_data_size(self):
        return getattr(self.sim, 'max_recv', 290)


# ----------------------------------------------------------------------------
# Type 2 Tag
# ----------------------------------------------------------------------------
class Tt2Sim(SimBase):
    """byte memory, 4-byte pages, 1 KiB sectors.  READ returns 16 bytes and
    rolls over to the start of memory at the end; READ/WRITE beyond the
    physical size is NAKed and leaves the tag mute until sensed again; an
    unknown command leaves the tag mute.  Plain memory: lock bits and OTP are
    not interpreted."""
    ACK = 0x0A

    def __init__(self, mem, uid=b"\x01\x02\x03\x04\x05\x06\x07"):
        SimBase.__init__(self)
        self.mem = mem
        self.sector = 0
        self.sector_pending = False
        self.uid = uid

    def nak(self):
        self.mute = True
        return bytearray([0x00])

    def is_write(self, cmd):
        return cmd[0] == 0xA2 and not self.sector_pending

    def execute(self, cmd):
        if self.sector_pending:
            # second packet of SECTOR SELECT: passive ack (no answer) when
            # the sector exists, NAK otherwise
            self.sector_pending = False
            sector = cmd[0]
            if len(cmd) == 4 and sector * 1024 < len(self.mem):
                self.sector = sector
                self.log.append(("sector", sector))
                raise nfc.clf.TimeoutError("passive ack")
            return self.nak()
        op = cmd[0]
        if op == 0x30 and len(cmd) == 2:
            addr = self.sector * 1024 + cmd[1] * 4
            if addr >= len(self.mem):
                return self.nak()
            self.log.append(("read", addr))
            n = len(self.mem)
            return bytearray([self.mem[(addr + i) % n] for i in range(16)])
        if op == 0xA2 and len(cmd) == 6:
            addr = self.sector * 1024 + cmd[1] * 4
            if addr >= len(self.mem):
                return self.nak()
            new = [cmd[2 + i] for i in range(4)]
            self.writes.append((addr, self.mem[addr:addr + 4], new))
            self.log.append(("write", addr))
            self.mem[addr:addr + 4] = new
            return bytearray([self.ACK])
        if op == 0xC2 and len(cmd) == 2 and cmd[1] == 0xFF:
            if len(self.mem) > 1024:
                self.sector_pending = True
                return bytearray([self.ACK])
            return self.nak()
        self.mute = True
        raise nfc.clf.TimeoutError("unknown command")


def tt2_target(uid=b"\x01\x02\x03\x04\x05\x06\x07"):
    t = nfc.clf.RemoteTarget("106A")
    t.sens_res = bytearray(b"\x44\x00")
    t.sel_res = bytearray(b"\x00")
    t.sdd_res = bytearray(uid)
    return t


# ----------------------------------------------------------------------------
# Type 1 Tag
# ----------------------------------------------------------------------------
class Tt1Sim(SimBase):
    """Topaz-style tag: HR0/HR1, 120 bytes static memory (HR0 low nibble 1) or
    more (dynamic, 8-byte block commands).  WRITE-E erases then writes,
    WRITE-NE ORs.  Reads beyond the physical memory return zeros and writes
    there are ignored (the tag still answers).  Commands with another UID or
    unsupported commands get no answer.  Lock/OTP bytes are plain memory."""

    def __init__(self, mem, hr0, hr1):
        SimBase.__init__(self)
        self.mem = mem
        self.hr = [hr0, hr1]
        self.dynamic = (hr0 & 0x0F) != 1

    def uid(self):
        return self.mem[0:4]

    def is_write(self, cmd):
        return cmd[0] in (0x53, 0x1A, 0x54, 0x1B)

    def _uid_ok(self, cmd):
        return list(cmd[-4:]) == list(self.mem[0:4])

    def _store(self, addr, new, erase):
        if addr + len(new) > len(self.mem):
            return [0] * len(new)
        old = self.mem[addr:addr + len(new)]
        if not erase:
            new = [o | n for o, n in zip(old, new)]
        self.writes.append((addr, old, list(new)))
        self.mem[addr:addr + len(new)] = list(new)
        return list(new)

    def execute(self, cmd):
        op = cmd[0]
        if op == 0x78 and len(cmd) == 7:
            self.log.append(("rid", 0))
            return bytearray(self.hr + self.mem[0:4])
        if len(cmd) >= 7 and not self._uid_ok(cmd):
            raise nfc.clf.TimeoutError("other uid")
        if op == 0x00 and len(cmd) == 7:
            self.log.append(("rall", 0))
            return bytearray(self.hr + self.mem[0:120])
        if op == 0x01 and len(cmd) == 7:
            addr = cmd[1] & 0x7F
            self.log.append(("read", addr))
            v = self.mem[addr] if addr < len(self.mem) else 0
            return bytearray([addr, v])
        if op in (0x53, 0x1A) and len(cmd) == 7:
            addr = cmd[1] & 0x7F
            self.log.append(("write", addr))
            new = self._store(addr, [cmd[2]], op == 0x53)
            return bytearray([addr] + new)
        if self.dynamic and op == 0x10 and len(cmd) == 14:
            seg = cmd[1] >> 4
            self.log.append(("rseg", seg))
            d = [self.mem[seg * 128 + i] if seg * 128 + i < len(self.mem) else 0
                 for i in range(128)]
            return bytearray([cmd[1]] + d)
        if self.dynamic and op == 0x02 and len(cmd) == 14:
            blk = cmd[1]
            self.log.append(("read8", blk))
            d = [self.mem[blk * 8 + i] if blk * 8 + i < len(self.mem) else 0
                 for i in range(8)]
            return bytearray([blk] + d)
        if self.dynamic and op in (0x54, 0x1B) and len(cmd) == 14:
            blk = cmd[1]
            self.log.append(("write8", blk))
            new = self._store(blk * 8, [cmd[2 + i] for i in range(8)], op == 0x54)
            return bytearray([blk] + new)
        raise nfc.clf.TimeoutError("unsupported command")


def tt1_target(sim):
    t = nfc.clf.RemoteTarget("106A")
    t.sens_res = bytearray(b"\x00\x0C")
    t.rid_res = bytearray(sim.hr + sim.mem[0:4])
    return t


# ----------------------------------------------------------------------------
# Type 3 Tag
# ----------------------------------------------------------------------------
class Tt3Sim(SimBase):
    """FeliCa style tag with one NDEF system (12FCh): 16-byte blocks, service
    000Bh (read) and 0009h (read/write) without encryption.  Written from the
    FeliCa command formats: Polling, Read/Write Without Encryption with its
    own service/block list parsing; per-command block limits; status flags
    FFh/A1h-A8h for illegal lists.  mem is a flat list, block b at b*16."""

    def __init__(self, mem, idm, pmm, max_read=15, max_write=13, sys=0x12FC):
        SimBase.__init__(self)
        self.mem = mem
        self.idm = list(idm)
        self.pmm = list(pmm)
        self.max_read = max_read
        self.max_write = max_write
        self.sys = sys

    def is_write(self, cmd):
        return len(cmd) > 1 and cmd[1] == 0x08

    def nblocks(self):
        return len(self.mem) // 16

    def _rsp(self, code, body):
        return bytearray([2 + 8 + len(body), code] + self.idm + list(body))

    def _lists(self, d):
        """parse service list and block list -> (services, blocks, rest)"""
        pos = 0
        nsvc = d[pos]
        pos += 1
        if not 1 <= nsvc <= 16:
            return None, 0xA1, None
        svcs = []
        for i in range(nsvc):
            svcs.append(d[pos] | (d[pos + 1] << 8))
            pos += 2
        nblk = d[pos]
        pos += 1
        if nblk == 0:
            return None, 0xA2, None
        blocks = []
        for i in range(nblk):
            b0 = d[pos]
            if b0 & 0x80:
                num = d[pos + 1]
                pos += 2
            else:
                num = d[pos + 1] | (d[pos + 2] << 8)
                pos += 3
            order = b0 & 0x0F
            if order >= nsvc:
                return None, 0xA3, None
            if (b0 >> 4) & 7:
                return None, 0xA7, None      # access mode must be 0
            blocks.append((svcs[order], num))
        return blocks, 0, d[pos:]

    def execute(self, cmd):
        if len(cmd) < 2 or cmd[0] != len(cmd):
            raise nfc.clf.TimeoutError("length")
        code = cmd[1]
        if code == 0x00 and len(cmd) == 6:
            sysc = (cmd[2] << 8) | cmd[3]
            if sysc != self.sys and sysc != 0xFFFF and \
                    not (cmd[2] == 0xFF and cmd[3] == (self.sys & 0xFF)) and \
                    not (cmd[3] == 0xFF and cmd[2] == (self.sys >> 8)):
                raise nfc.clf.TimeoutError("other system")
            self.log.append(("poll", sysc))
            body = self.idm + self.pmm
            if cmd[4] == 1:
                body = body + [self.sys >> 8, self.sys & 0xFF]
            elif cmd[4] == 2:
                body = body + [0x00, 0x83]
            return bytearray([2 + len(body), 0x01] + body)
        if len(cmd) < 10 or list(cmd[2:10]) != self.idm:
            raise nfc.clf.TimeoutError("other idm")
        d = cmd[10:]
        if code == 0x06:
            blocks, err, rest = self._lists(d)
            if blocks is None:
                return self._rsp(0x07, [0xFF, err])
            if len(blocks) > self.max_read:
                return self._rsp(0x07, [0xFF, 0xA2])
            out = []
            for i, (svc, num) in enumerate(blocks):
                if svc not in (0x000B, 0x0009):
                    return self._rsp(0x07, [1 << (i % 8), 0xA6])
                if num >= self.nblocks():
                    return self._rsp(0x07, [1 << (i % 8), 0xA8])
                out += self.mem[num * 16:num * 16 + 16]
                self.log.append(("read", num))
            return self._rsp(0x07, [0, 0, len(blocks)] + out)
        if code == 0x08:
            blocks, err, rest = self._lists(d)
            if blocks is None:
                return self._rsp(0x09, [0xFF, err])
            if len(blocks) > self.max_write or len(rest) != 16 * len(blocks):
                return self._rsp(0x09, [0xFF, 0xA2])
            for i, (svc, num) in enumerate(blocks):
                if svc != 0x0009:
                    return self._rsp(0x09, [1 << (i % 8), 0xA6])
                if num >= self.nblocks():
                    return self._rsp(0x09, [1 << (i % 8), 0xA8])
            for i, (svc, num) in enumerate(blocks):
                new = [rest[i * 16 + j] for j in range(16)]
                self.writes.append((num * 16, self.mem[num * 16:num * 16 + 16], new))
                self.mem[num * 16:num * 16 + 16] = new
                self.log.append(("write", num))
            return self._rsp(0x09, [0, 0])
        raise nfc.clf.TimeoutError("unsupported command")


def tt3_target(sim, with_sys=True):
    t = nfc.clf.RemoteTarget("212F")
    body = [0x01] + sim.idm + sim.pmm
    if with_sys:
        body += [sim.sys >> 8, sim.sys & 0xFF]
    t.sensf_res = bytearray(body)
    return t


class Tt3EmuSim(SimBase):
    """the library's own Type3TagEmulation as the tag: the reader's exchange
    hands each command to process_command(); block services are byte-array
    closures as in examples/tagtool.py"""

    def __init__(self, mem, idm, pmm, sys=0x12FC):
        import nfc.tag.tt3
        SimBase.__init__(self)
        self.mem = mem
        self.idm, self.pmm, self.sys = list(idm), list(pmm), sys
        target = nfc.clf.LocalTarget("212F")
        target.sensf_res = bytearray([0x01] + self.idm + self.pmm +
                                     [sys >> 8, sys & 0xFF])
        target.tt3_cmd = bytearray([0x00, 0x12, 0xFC, 0x00, 0x00])
        self.emu = nfc.tag.tt3.Type3TagEmulation(None, target)

        def ndef_read(block_number, rb, re):
            if block_number < len(self.mem) // 16:
                self.log.append(("read", block_number))
                return bytearray(self.mem[block_number * 16:block_number * 16 + 16])

        def ndef_write(block_number, block_data, wb, we):
            if block_number < len(self.mem) // 16:
                new = [block_data[j] for j in range(16)]
                a = block_number * 16
                self.writes.append((a, self.mem[a:a + 16], new))
                self.mem[a:a + 16] = new
                self.log.append(("write", block_number))
                return True

        self.emu.add_service(0x0009, ndef_read, ndef_write)
        self.emu.add_service(0x000B, ndef_read, lambda: False)

    def is_write(self, cmd):
        return len(cmd) > 1 and cmd[1] == 0x08

    def execute(self, cmd):
        rsp = self.emu.process_command(bytearray(cmd))
        if rsp is None:
            raise nfc.clf.TimeoutError("no response")
        return bytearray(rsp)
