"""RecDevice - a recording device driver for ContactlessFrontend (C15, C18).

RecDevice subclasses nfc.clf.device.Device (the driver interface).  Every
driver method
  * records (method, argument summary, clf.lock.locked(), clf.device is self,
    innermost frame of nfc/clf/__init__.py that made the call) in a Trace,
  * calls an optional hook (C15 puts its obligation there),
  * optionally injects a host-link fault (IOError / KeyboardInterrupt),
  * and answers from an environment script (Env subclasses below): nothing in
    the field, a minimal Type 2 tag that disappears, a reader that polls an
    emulated Type 3 tag, an NFC-DEP/LLCP peer in either role, or a slot table
    for plain sense() calls.

All choices of the environment are drawn lazily with sx.pick at the moment the
code under test asks (one fork per real decision point), so the explored tree
is the tree of conversations the real code can have with this environment.

Single threaded: clf.lock.locked() at the entry of a driver method means "held
by the caller".
"""
import os
import sys
import errno

import nfc.clf
import nfc.clf.device
from symx.envpatch import CLOCK

CLF_FILE = os.sep.join(["nfc", "clf", "__init__.py"])


class HarnessLimit(BaseException):
    """the code under test did not come back within the call bound (caught by
    the harness and turned into a violation; BaseException so that no handler
    inside nfc can swallow it)"""


class WouldBlock(HarnessLimit):
    """clf.lock is held by 'another thread' (the harness standing in for it):
    a blocking acquire would wait - the correct behaviour of an entry point"""


NFC_DIR = os.sep + "nfc" + os.sep


def clf_site(depth=2):
    """(function name, line, chain): innermost frame that executes code of
    nfc/clf/__init__.py, seen from a driver method, and the names of all
    frames of the nfc package on the stack (outermost first)."""
    f = sys._getframe(depth)
    site = None
    chain = []
    while f is not None:
        fn = f.f_code.co_filename
        if site is None and fn.endswith(CLF_FILE):
            site = (f.f_code.co_name, f.f_lineno)
        if NFC_DIR in fn:
            chain.append(f.f_code.co_name)
        f = f.f_back
    chain.reverse()
    if site is None:
        site = ("?", 0)
    return site[0], site[1], chain


class Trace(object):
    """chronological record of everything observable in one run"""

    def __init__(self):
        self.ev = []

    def add(self, *e):
        self.ev.append(e)

    def drv(self):
        return [e for e in self.ev if e[0] == "drv"]

    def names(self, kinds=("cb", "poll", "drv", "env", "fault")):
        out = []
        for e in self.ev:
            if e[0] not in kinds:
                continue
            if e[0] == "cb":
                out.append("cb:%s.%s=%s" % (e[1], e[2], e[4]))
            elif e[0] == "poll":
                out.append("poll=%s" % e[2])
            elif e[0] == "drv":
                out.append("drv:" + e[1])
            elif e[0] == "env":
                out.append("env:" + ":".join(
                    str(x) for x in e[1:] if isinstance(x, (str, int))))
            elif e[0] == "fault":
                out.append("fault:" + e[1])
        return out


def summary(x):
    """argument summary without contents (random ids, symbolic data)"""
    if x is None:
        return "None"
    if isinstance(x, (nfc.clf.RemoteTarget, nfc.clf.LocalTarget)):
        return type(x).__name__ + ":" + str(x.brty)
    if isinstance(x, str):
        return x
    try:
        return "bytes[%d]" % len(x)
    except TypeError:
        return "num"


class RecDevice(nfc.clf.device.Device):
    def __init__(self, sx, env, trace, limit=600):
        self.sx = sx
        self.env = env
        self.trace = trace
        self.clf = None
        self.hook = None        # callable(dev, method, locked, current, fn, line)
        self.ncalls = 0
        self.limit = limit
        self.fault = None       # dict(kind=, budget=, persistent=, first=) lazy fault injection
        self.faulted = False
        self._path = "rec:000:000"
        self._chipset_name = "REC"
        self._vendor_name = "symx"
        self._device_name = "RecDevice"
        env.dev = self

    def attach(self, clf):
        """what ContactlessFrontend.open() does with the driver it found"""
        self.clf = clf
        clf.device = self
        return self

    # ------------------------------------------------------------ recording
    def _enter(self, method, *args):
        clf = self.clf
        helpers = HELPERS[0]
        if helpers is not None and not helpers.running:
            # helper threads (threading.Timer / Thread objects the frontend
            # started) run while this driver call is in progress
            helpers.fire(self, "during:" + method)
        locked = bool(clf is not None and lock_held_by_caller(clf.lock))
        if helpers is not None and helpers.running:
            # a call made BY a helper thread: the calling thread holds the
            # lock only if it took it itself
            locked = locked and helpers.took_lock
            self.helper_thread = True
        else:
            self.helper_thread = False
        current = bool(clf is not None and clf.device is self)
        self.lock_owner = frontend_lock_owner(clf) if clf is not None else None
        fn, line, chain = clf_site()
        self.ncalls += 1
        self.trace.add("drv", method, [summary(a) for a in args], locked,
                       current, fn, line, chain)
        if self.hook is not None:
            self.hook(self, method, locked, current, fn, line)
        if self.ncalls > self.limit:
            raise HarnessLimit("more than %d driver calls" % self.limit)
        if method.startswith("sense_") and self.env.sense_cost:
            # a slow reader: this discovery attempt takes that long
            CLOCK.t += self.env.sense_cost
        f = self.fault
        if f is not None and method != "close":
            fire = False
            if self.faulted:
                fire = f.get('persistent', False)
            elif self.ncalls >= f.get('first', 1) and f['budget'] > 0:
                f['budget'] -= 1
                fire = bool(self.sx.pick("fault@%d" % self.ncalls, [0, 1]))
            if fire:
                self.faulted = True
                self.trace.add("fault", f['kind'], method)
                if f['kind'] == "KeyboardInterrupt":
                    raise KeyboardInterrupt()
                raise IOError(errno.ENODEV, os.strerror(errno.ENODEV))

    # ------------------------------------------------------------ driver API
    def close(self):
        self._enter("close")
        return self.env.close()

    def mute(self):
        self._enter("mute")
        return self.env.mute()

    def sense_tta(self, target):
        self._enter("sense_tta", target)
        return self.env.sense("tta", target)

    def sense_ttb(self, target):
        self._enter("sense_ttb", target)
        return self.env.sense("ttb", target)

    def sense_ttf(self, target):
        self._enter("sense_ttf", target)
        return self.env.sense("ttf", target)

    def sense_dep(self, target):
        self._enter("sense_dep", target)
        return self.env.sense("dep", target)

    def listen_tta(self, target, timeout):
        self._enter("listen_tta", target, timeout)
        return self.env.listen("tta", target, timeout)

    def listen_ttb(self, target, timeout):
        self._enter("listen_ttb", target, timeout)
        return self.env.listen("ttb", target, timeout)

    def listen_ttf(self, target, timeout):
        self._enter("listen_ttf", target, timeout)
        return self.env.listen("ttf", target, timeout)

    def listen_dep(self, target, timeout):
        self._enter("listen_dep", target, timeout)
        return self.env.listen("dep", target, timeout)

    def send_cmd_recv_rsp(self, target, data, timeout):
        self._enter("send_cmd_recv_rsp", target, data, timeout)
        self.trace.add("xchg", "cmd", target, data)
        return self.env.cmd(target, data, timeout)

    def send_rsp_recv_cmd(self, target, data, timeout=None):
        self._enter("send_rsp_recv_cmd", target, data, timeout)
        self.trace.add("xchg", "rsp", target, data)
        return self.env.rsp(target, data, timeout)

    def get_max_send_data_size(self, target):
        self._enter("get_max_send_data_size", target)
        return 290

    def get_max_recv_data_size(self, target):
        self._enter("get_max_recv_data_size", target)
        return 290

    def turn_on_led_and_buzzer(self):
        self._enter("turn_on_led_and_buzzer")

    def turn_off_led_and_buzzer(self):
        self._enter("turn_off_led_and_buzzer")


# ----------------------------------------------------------------------------
# environments
# ----------------------------------------------------------------------------
class Env(object):
    """nothing in the field"""

    def __init__(self, sx, trace):
        self.sx = sx
        self.trace = trace
        self.dev = None
        self.close_error = False
        self.sense_cost = 0

    def close(self):
        if self.close_error:
            raise IOError(errno.EIO, "close failed")

    def mute(self):
        pass

    def sense(self, kind, target):
        return None

    def listen(self, kind, target, timeout):
        return None

    def cmd(self, target, data, timeout):
        raise nfc.clf.TimeoutError("no answer")

    def rsp(self, target, data, timeout):
        raise nfc.clf.TimeoutError("no command")


class UnsupportedEnv(Env):
    """a driver that supports none of the given discovery methods"""

    def __init__(self, sx, trace, kinds):
        Env.__init__(self, sx, trace)
        self.kinds = kinds

    def sense(self, kind, target):
        if kind in self.kinds:
            self.trace.add("env", "unsupported", kind)
            raise nfc.clf.UnsupportedTargetError(kind)
        return None

    def listen(self, kind, target, timeout):
        if kind in self.kinds:
            self.trace.add("env", "unsupported", kind)
            raise nfc.clf.UnsupportedTargetError(kind)
        return None


class T2TagEnv(Env):
    """A generic (non-NXP) Type 2 Tag in the field of the reader.

    SENS_RES 4400, SEL_RES 00, 4 byte UID.  READ (30h) answers 16 bytes of
    page 0..3 (symbolic memory image); the tag is picked to disappear at
    read number i <= max_reads: it then either stays silent (TimeoutError),
    answers a NAK, or the answer is garbled (TransmissionError); afterwards
    nothing answers any more.  `appear` sense_tta calls stay unanswered
    before the tag shows up.  Any mute()/sense/listen deselects the tag
    (device.py: "target becomes invalid")."""
    UID = [0x08, 0x5A, 0xC3, 0x17]
    SEL_RES = 0x00

    def __init__(self, sx, trace, max_reads=2, appear=0,
                 gone_kinds=("timeout", "nak", "crc")):
        Env.__init__(self, sx, trace)
        self.mem = sx.bytes("t2.mem", 16)
        self.nak = sx.int("t2.nak", 0, 255)
        self.max_reads = max_reads
        self.appear = appear
        self.gone_kinds = list(gone_kinds)
        self.nsense = 0
        self.nread = 0
        self.gone = False
        self.selected = None
        self.found = []

    def mute(self):
        self.selected = None

    def listen(self, kind, target, timeout):
        self.selected = None
        return None

    def sense(self, kind, target):
        self.selected = None
        if kind != "tta" or self.gone:
            return None
        self.nsense += 1
        if self.nsense <= self.appear:
            return None
        uid = self.sx.mkbytes(self.UID)
        if target.sel_req and list(target.sel_req) != self.UID:
            return None
        found = nfc.clf.RemoteTarget(
            "106A", sens_res=self.sx.mkbytes([0x44, 0x00]),
            sel_res=self.sx.mkbytes([self.SEL_RES]), sdd_res=uid)
        self.selected = found
        self.found.append(found)
        self.trace.add("env", "found", found)
        return found

    def cmd(self, target, data, timeout):
        if self.gone or self.selected is None or target is not self.selected:
            raise nfc.clf.TimeoutError("no tag")
        if len(data) == 2 and data[0] == 0x30:
            i = self.nread
            self.nread += 1
            opts = ["ok"] if i < self.max_reads else []
            opts += ["gone:" + k for k in self.gone_kinds]
            what = self.sx.pick("t2.read#%d" % i, opts)
            if what == "ok":
                self.trace.add("env", "read-ok")
                return self.sx.mkbytes(list(self.mem))
            self.gone = True
            self.trace.add("env", "gone", what)
            if what == "gone:nak":
                # NAK is a 4 bit answer 0,1,4,5; any one byte answer is "not 16"
                return self.sx.mkbytes([self.nak])
            if what == "gone:crc":
                raise nfc.clf.TransmissionError("crc")
            raise nfc.clf.TimeoutError("silent")
        raise nfc.clf.TimeoutError("unsupported command: tag goes mute")


class T1TagEnv(T2TagEnv):
    """A Type 1 Tag (Topaz) in the field: discovered at 106A with SENS_RES 000Ch
    and RID_RES only - a Type 1 Tag platform has no anticollision, so the
    target carries neither SDD_RES nor SEL_RES.  It answers no command here
    (what is exercised is what the frontend's users make of such a target)."""

    def sense(self, kind, target):
        self.selected = None
        if kind != "tta" or self.gone or target.sel_req:
            return None
        self.nsense += 1
        if self.nsense <= self.appear:
            return None
        found = nfc.clf.RemoteTarget(
            "106A", sens_res=self.sx.mkbytes([0x00, 0x0C]),
            rid_res=self.sx.mkbytes([0x11, 0x48, 0x01, 0x02, 0x03, 0x04]))
        self.selected = found
        self.found.append(found)
        self.trace.add("env", "found", found)
        return found

    def cmd(self, target, data, timeout):
        raise nfc.clf.TimeoutError("type 1 tag model answers nothing")


class T4ATagEnv(T2TagEnv):
    """A minimal Type 4A Tag (SEL_RES bit 5): activation really talks to the
    driver.  RATS (E0h) is answered with ATS 05 78 80 40 02; the FIRST RATS of
    a run is picked to fail with one of the CommunicationError subclasses
    (silence, garbled answer, protocol error) - the tag then needs a new
    discovery round and answers normally.  The ISO-DEP presence check R(NAK)
    (B2h/B3h) is answered R(ACK) like the READ of the Type 2 script
    (present `max_reads` times at most, then gone)."""
    SEL_RES = 0x20

    def __init__(self, sx, trace, max_reads=1, appear=0, faults=(
            "ok", "timeout", "crc", "protocol")):
        T2TagEnv.__init__(self, sx, trace, max_reads=max_reads, appear=appear,
                          gone_kinds=("timeout",))
        self.faults = list(faults)
        self.nrats = 0

    def cmd(self, target, data, timeout):
        if self.gone or self.selected is None or target is not self.selected:
            raise nfc.clf.TimeoutError("no tag")
        if len(data) == 2 and data[0] == 0xE0:
            i = self.nrats
            self.nrats += 1
            what = self.sx.pick("t4.rats", self.faults) if i == 0 else "ok"
            if what == "ok":
                self.trace.add("env", "rats-ok")
                return self.sx.mkbytes([0x05, 0x78, 0x80, 0x40, 0x02])
            self.selected = None
            self.trace.add("env", "activation-fault", what)
            if what == "crc":
                raise nfc.clf.TransmissionError("crc")
            if what == "protocol":
                raise nfc.clf.ProtocolError("frame")
            raise nfc.clf.TimeoutError("silent")
        if len(data) == 1 and data[0] & 0xFE == 0xB2:
            i = self.nread
            self.nread += 1
            what = self.sx.pick("t4.nak#%d" % i,
                                (["ok"] if i < self.max_reads else []) + ["gone"])
            if what == "ok":
                self.trace.add("env", "read-ok")
                return self.sx.mkbytes([0xA2 | (data[0] & 1)])
            self.gone = True
            self.trace.add("env", "gone", "gone:timeout")
        raise nfc.clf.TimeoutError("silent")


class ReaderEnv(Env):
    """A remote reader that discovers the local (emulated) Type 3 Tag.

    listen_ttf: picked per call (at most `max_idle` unanswered listens) whether
    the reader activates us; first command is a polling command (or absent when
    first_cmd is False -> nfc.tag.emulate cannot emulate).  Afterwards every
    response is followed by: another polling command / request-response, a
    silent period (TimeoutError), or the reader leaving (BrokenLinkError);
    at most max_cmds further commands, then the reader leaves for good."""
    IDM = [0x02, 0xFE, 1, 2, 3, 4, 5, 6]

    def __init__(self, sx, trace, max_idle=0, max_cmds=2, first_cmd=True,
                 silent=False, kinds=("ttf",)):
        Env.__init__(self, sx, trace)
        self.max_idle = max_idle
        self.max_cmds = max_cmds
        self.first_cmd = first_cmd
        self.silent = silent
        self.kinds = kinds
        self.nlisten = 0
        self.ncmd = 0
        self.active = None
        self.left = False

    def mute(self):
        self.active = None

    def sense(self, kind, target):
        self.active = None
        return None

    def listen(self, kind, target, timeout):
        self.active = None
        if kind not in self.kinds or self.left:
            return None
        i = self.nlisten
        self.nlisten += 1
        if i < self.max_idle and self.sx.pick("rd.listen#%d" % i, [0, 1]) == 0:
            self.trace.add("env", "listen-idle")
            return None
        sx = self.sx
        if kind == "ttf":
            t = nfc.clf.LocalTarget(
                "212F", sensf_req=sx.mkbytes([0x00, 0xFF, 0xFF, 0x01, 0x00]),
                sensf_res=sx.mkbytes(list(target.sensf_res)))
            if self.first_cmd:
                t.tt3_cmd = sx.mkbytes([0x00, 0xFF, 0xFF, 0x01, 0x00])
            else:
                t.tt3_cmd = sx.mkbytes([])
        else:   # tta: a Type 2/4A reader; nfc.tag.emulate has no emulation for it
            t = nfc.clf.LocalTarget(
                "106A", sens_res=sx.mkbytes(list(target.sens_res)),
                sdd_res=sx.mkbytes(list(target.sdd_res)),
                sel_res=sx.mkbytes(list(target.sel_res)),
                tt2_cmd=sx.mkbytes([0x30, 0x00]))
        self.active = t
        self.trace.add("env", "activated", t)
        return t

    def rsp(self, target, data, timeout):
        if self.active is None or target is not self.active:
            raise nfc.clf.TimeoutError("not active")
        i = self.ncmd
        self.ncmd += 1
        if self.silent:
            opts = ["timeout"]
        elif i < self.max_cmds:
            opts = ["poll", "reqrsp", "timeout", "broken"]
        else:
            opts = ["broken"]
        what = self.sx.pick("rd.cmd#%d" % i, opts)
        if what == "broken":
            self.left = True
            self.active = None
            self.trace.add("env", "link-broken")
            raise nfc.clf.BrokenLinkError("reader left")
        if what == "timeout":
            self.trace.add("env", "reader-silent")
            raise nfc.clf.TimeoutError("no command")
        self.trace.add("env", "reader-cmd", what)
        if what == "poll":
            return self.sx.mkbytes([0x06, 0x00, 0xFF, 0xFF, 0x01, 0x00])
        return self.sx.mkbytes([0x0A, 0x04] + self.IDM)


# LLCP parameter TLVs of the peer: magic, version 1.1, (MIUX set separately), WKS, LTO
LLCP_GB = [0x46, 0x66, 0x6D, 0x01, 0x01, 0x13]
SYMM = [0x00, 0x00]
DISC = [0x01, 0x40]


class PeerEnv(Env):
    """An NFC-DEP / LLCP peer device (212F framing, no DID/NAD).

    role 'initiator': the peer activates us.  listen_dep returns a LocalTarget
    with the peer's ATR_REQ (LLCP magic + version TLV as in the repository's
    tests), our ATR_RES and the first DEP_REQ (INF pni 0 carrying SYMM); the
    peer then answers every DEP_RES with the next DEP_REQ carrying SYMM, at
    most max_symm times, and ends by: staying silent (TimeoutError), sending
    DSL_REQ, or sending an LLCP DISC PDU.
    role 'target': we discover the peer.  sense_ttf answers SENSF_RES with
    NFCID2 01FE.., ATR_REQ is answered with ATR_RES (LLCP general bytes),
    PSL_REQ with PSL_RES, every DEP_REQ INF with DEP_RES INF (same PNI)
    carrying SYMM at most max_symm times, then silence / DISC; DSL_REQ and
    RLS_REQ are answered.  Symbolic: the LTO byte of the peer's general bytes
    (link timeout 10 ms .. 2.55 s) where `sym_lto` is set."""
    NFCID3 = [0x01, 0xFE, 0x11, 0x22, 0x33, 0x44, 0x55, 0x66, 0x53, 0x54]

    def __init__(self, sx, trace, role, max_idle=0, max_symm=2,
                 ends=("timeout", "dsl", "disc"), sym_lto=False, magic=True,
                 always_symm=False):
        Env.__init__(self, sx, trace)
        self.role = role
        self.always_symm = always_symm
        self.max_idle = max_idle
        self.max_symm = max_symm
        self.ends = list(ends)
        self.nidle = 0
        self.nsymm = 0
        self.active = None
        self.left = False
        self.pni = 0
        gb = list(LLCP_GB if magic else [0x46, 0x66, 0x6E, 0x01, 0x01, 0x13])
        if sym_lto:
            gb += [0x04, 0x01, sx.int("peer.lto", 1, 255)]
        self.gb = gb

    def mute(self):
        self.active = None

    # -- peer is initiator --------------------------------------------------
    def listen(self, kind, target, timeout):
        self.active = None
        if self.role != "initiator" or kind != "dep" or self.left:
            return None
        i = self.nidle
        self.nidle += 1
        if i < self.max_idle and self.sx.pick("peer.listen#%d" % i, [0, 1]) == 0:
            self.trace.add("env", "listen-idle")
            return None
        sx = self.sx
        atr_req = [0xD4, 0x00] + self.NFCID3 + [0x00, 0x00, 0x00, 0x32] + self.gb
        t = nfc.clf.LocalTarget(
            "212F", atr_req=sx.mkbytes(atr_req),
            atr_res=sx.mkbytes(list(target.atr_res)),
            sensf_res=sx.mkbytes(list(target.sensf_res)),
            dep_req=sx.mkbytes([0xD4, 0x06, 0x00] + SYMM))
        self.active = t
        self.pni = 0
        self.trace.add("env", "dep-activated", t)
        return t

    def _end(self, name):
        what = self.sx.pick(name, self.ends)
        self.left = True
        self.trace.add("env", "peer-ends", what)
        return what

    def rsp(self, target, data, timeout):
        """we are target: data is our DEP_RES (or None), return next request"""
        if self.active is None or target is not self.active:
            raise nfc.clf.TimeoutError("not active")
        if self.left:
            self.trace.add("env", "peer-silent")
            raise nfc.clf.TimeoutError("peer gone")
        if data is None:
            raise nfc.clf.TimeoutError("nothing to answer")
        i = self.nsymm
        self.nsymm += 1
        opts = (["symm"] if i < self.max_symm else [])
        what = self.sx.pick("peer.req#%d" % i, opts + ["end"])
        self.pni = (self.pni + 1) & 3
        if what == "symm":
            self.trace.add("env", "peer-symm")
            return self.sx.mkbytes([0x06, 0xD4, 0x06, self.pni] + SYMM)
        end = self._end("peer.end")
        if end == "dsl":
            return self.sx.mkbytes([0x03, 0xD4, 0x08])
        if end == "disc":
            return self.sx.mkbytes([0x06, 0xD4, 0x06, self.pni] + DISC)
        raise nfc.clf.TimeoutError("peer silent")

    # -- peer is target ------------------------------------------------------
    def sense(self, kind, target):
        self.active = None
        if self.role != "target" or self.left:
            return None
        if kind != "ttf":
            return None
        i = self.nidle
        self.nidle += 1
        if i < self.max_idle and self.sx.pick("peer.sense#%d" % i, [0, 1]) == 0:
            self.trace.add("env", "sense-idle")
            return None
        sx = self.sx
        t = nfc.clf.RemoteTarget(
            "212F", sensf_res=sx.mkbytes([0x01] + self.NFCID3[0:8] + [0] * 8))
        self.active = t
        self.trace.add("env", "peer-found", t)
        return t

    def cmd(self, target, data, timeout):
        if self.active is None or target is not self.active:
            raise nfc.clf.TimeoutError("not active")
        if self.left:
            raise nfc.clf.TimeoutError("peer gone")
        sx = self.sx
        code = data[2] if len(data) > 2 else None
        if len(data) < 3 or data[1] != 0xD4:
            raise nfc.clf.TimeoutError("not nfc-dep")
        if code == 0x00:    # ATR_REQ -> ATR_RES
            res = [0xD5, 0x01] + self.NFCID3 + [0x00, 0x00, 0x00, 0x08, 0x32] \
                + self.gb
            self.trace.add("env", "dep-activated", target)
            return sx.mkbytes([len(res) + 1] + res)
        if code == 0x04:    # PSL_REQ
            return sx.mkbytes([0x04, 0xD5, 0x05, data[3]])
        if code == 0x08:    # DSL_REQ
            self.left = True
            return sx.mkbytes([0x03, 0xD5, 0x09])
        if code == 0x0A:    # RLS_REQ
            self.left = True
            return sx.mkbytes([0x03, 0xD5, 0x0B])
        if code == 0x06:
            pfb = data[3]
            if pfb & 0xE0 == 0x80:      # ATN
                return sx.mkbytes([0x04, 0xD5, 0x07, 0x80])
            if pfb & 0xE0 != 0x00:
                raise nfc.clf.TimeoutError("unexpected pdu")
            i = self.nsymm
            self.nsymm += 1
            opts = (["symm"] if i < self.max_symm else [])
            if self.always_symm and opts:
                what = "symm"
            else:
                what = sx.pick("peer.res#%d" % i, opts + ["end"])
            if what == "symm":
                self.trace.add("env", "peer-symm")
                return sx.mkbytes([0x06, 0xD5, 0x07, pfb & 3] + SYMM)
            end = self._end("peer.end")
            if end == "disc":
                return sx.mkbytes([0x06, 0xD5, 0x07, pfb & 3] + DISC)
            raise nfc.clf.TimeoutError("peer silent")
        raise nfc.clf.TimeoutError("unknown request")


class SlotEnv(Env):
    """Environment for plain sense()/listen() calls.

    `args` is the list of target objects handed to clf.sense(); `kinds[t]`
    says how the driver treats argument t:
      ok        supported, answers only in the found slot
      unsup     the driver raises UnsupportedTargetError
      commerr   the driver raises a CommunicationError subclass
    `found` is None or (round, t): the t-th argument is answered in that
    round of the sense loop by `response(t)`."""

    def __init__(self, sx, trace):
        Env.__init__(self, sx, trace)
        self.args = []
        self.kinds = []
        self.found = None
        self.response = None
        self.visits = {}
        self.active = None
        self.listen_script = None
        self.answer = None

    def program(self, args, kinds, found, response):
        self.args, self.kinds, self.found = args, kinds, found
        self.response = response
        self.visits = {}

    def mute(self):
        self.active = None

    def sense(self, kind, target):
        self.active = None
        for t, a in enumerate(self.args):
            if a is target:
                break
        else:
            self.trace.add("env", "foreign-target")
            return None
        rnd = self.visits.get(t, 0)
        self.visits[t] = rnd + 1
        self.trace.add("env", "sense", t, rnd)
        k = self.kinds[t]
        if k == "unsup":
            raise nfc.clf.UnsupportedTargetError("not supported")
        if k == "commerr":
            raise nfc.clf.TransmissionError("collision")
        if self.found is not None and self.found == (rnd, t):
            r = self.response(t)
            self.active = r
            return r
        return None

    def listen(self, kind, target, timeout):
        self.active = None
        what = self.listen_script
        self.trace.add("env", "listen", kind)
        if what == "unsup":
            raise nfc.clf.UnsupportedTargetError("not supported")
        if what == "valueerror":
            raise ValueError("sensf_res is required")
        if what == "found":
            r = self.response(kind)
            self.active = r
            return r
        return None

    def cmd(self, target, data, timeout):
        self.trace.add("env", "cmd")
        if self.answer is not None:
            return self.answer
        raise nfc.clf.TimeoutError("no answer")

    def rsp(self, target, data, timeout):
        self.trace.add("env", "rsp")
        if self.answer is not None:
            return self.answer
        raise nfc.clf.TimeoutError("no command")


# ----------------------------------------------------------------------------
# frontend construction
# ----------------------------------------------------------------------------
HELPERS = [None]        # HelperThreads installed as nfc.clf.threading (or None)


class HelperThreads(object):
    """stands in for the `threading` module inside nfc.clf: Lock etc. are the
    real ones; Timer and Thread objects are recorded instead of started.  A
    recorded helper runs (in the harness's only thread, marked as a foreign
    thread) when the next driver call is in progress - the moment another
    thread's driver call would overlap - and, if it was not cancelled, once
    more at the end of the scenario (a timer that fires late)."""

    def __init__(self, real):
        self._real = real
        self.pending = []       # [fn, args, cancelled]
        self.running = False
        self.took_lock = False
        self.fired = 0

    def __getattr__(self, name):
        return getattr(self._real, name)

    def _make(self, fn, args, kwargs):
        rec = [fn, tuple(args or ()), dict(kwargs or {}), False]
        owner = self

        class Handle(object):
            daemon = True

            def start(self):
                owner.pending.append(rec)

            def cancel(self):
                rec[3] = True       # (a callback that already runs is not stopped)

            def join(self, timeout=None):
                pass

            def is_alive(self):
                return rec in owner.pending

            def setDaemon(self, v):
                pass
        return Handle()

    def Timer(self, interval, function, args=None, kwargs=None):
        return self._make(function, args, kwargs)

    def Thread(self, group=None, target=None, name=None, args=(), kwargs=None, daemon=None):
        return self._make(target, args, kwargs)

    def fire(self, dev, when):
        todo, self.pending = [r for r in self.pending if not r[3]], []
        for fn, args, kwargs, _ in todo:
            self.running = True
            self.fired += 1
            try:
                fn(*args, **kwargs)
            except WouldBlock:
                pass                # it waits for the frontend lock: correct
            except Exception:
                pass
            finally:
                self.running = False


def install_helper_threads():
    """nfc.clf.threading := HelperThreads (both modes); undone by the caller"""
    import threading as real
    h = HelperThreads(real)
    HELPERS[0] = h
    nfc.clf.threading = h
    return h


def remove_helper_threads():
    import threading as real
    HELPERS[0] = None
    nfc.clf.threading = real


class GuardLock(object):
    """clf.lock with an owner tag and a deadlock detector.  Same interface and
    semantics as the threading.Lock it wraps.  The harness is single
    threaded: the lock is owned either by the 'caller' (the code under test
    took it) or by 'other' (the harness took it with hold_as_other(), standing
    for another application thread that is inside a driver call).  A blocking
    acquire of a held lock can never succeed here; instead of blocking the
    check for ever it raises WouldBlock (held by 'other': the entry point
    correctly waits) or HarnessLimit (held by the caller itself: deadlock).
    A non-blocking acquire of a held lock returns False like the real one and
    leaves the owner unchanged - so it does not count as 'held by caller'."""

    def __init__(self):
        import threading
        self._lock = threading.Lock()
        self.owner = None
        self.deadlocks = 0
        self.blocked = 0
        self.before_grant = None     # one-shot: what another thread does when
        self.as_other = False        # it gets the lock just before the caller

    def acquire(self, blocking=True, timeout=-1):
        if not self._lock.locked() and self.before_grant is not None \
                and not self.as_other:
            # preemption at the lock acquisition: another thread wins the
            # race for the free lock, does its work and releases it
            fn, self.before_grant = self.before_grant, None
            self.as_other = True
            try:
                fn()
            finally:
                self.as_other = False
        if self._lock.locked():
            if not blocking:
                return False
            if self.owner == "other":
                self.blocked += 1
                raise WouldBlock("clf.lock is held by another thread")
            self.deadlocks += 1
            raise HarnessLimit("clf.lock acquired while held: deadlock")
        r = self._lock.acquire(blocking, timeout)
        if r:
            self.owner = "other" if self.as_other else "caller"
        return r

    def release(self):
        self._lock.release()
        self.owner = None

    def locked(self):
        return self._lock.locked()

    def hold_as_other(self):
        assert not self._lock.locked()
        self._lock.acquire()
        self.owner = "other"

    def release_other(self):
        if self._lock.locked() and self.owner == "other":
            self.release()

    def __enter__(self):
        return self.acquire()

    def __exit__(self, *exc):
        self.release()


def lock_owner(lock):
    if not lock.locked():
        return None
    return getattr(lock, "owner", "caller")


def lock_held_by_caller(lock):
    return lock.locked() and getattr(lock, "owner", "caller") == "caller"


def frontend_lock_owner(clf):
    """who owns THE lock of the frontend: the object installed when the
    frontend was built (clf.guard_lock).  If 'another thread' holds that
    object, it is inside the driver - whatever clf.lock refers to now."""
    guard = getattr(clf, "guard_lock", None)
    if guard is not None and guard.locked() and guard.owner == "other":
        return "other"
    return lock_owner(clf.lock)


def lock_replaced(clf):
    """the frontend lock must be one object for the lifetime of the frontend"""
    guard = getattr(clf, "guard_lock", None)
    return guard is not None and clf.lock is not guard


def new_frontend():
    """ContactlessFrontend() without a path: no device yet"""
    clf = nfc.clf.ContactlessFrontend()
    clf.lock = clf.guard_lock = GuardLock()
    return clf


def make_frontend(dev, via_open=False):
    """ContactlessFrontend() without a path (no device), then either the
    assignment open() would make, or the real open() with
    nfc.clf.device.connect patched to hand out `dev` (recorded as pseudo
    driver call 'connect' with the lock state)."""
    clf = new_frontend()
    dev.clf = clf
    if not via_open:
        dev.attach(clf)
        return clf
    dev.entry = "open"
    open_frontend(clf, dev)
    return clf


def open_frontend(clf, dev, path="rec"):
    """real clf.open(path) with device.connect patched -> result of open()"""
    real = nfc.clf.device.connect
    dev.clf = clf

    def connect(p):
        locked = lock_held_by_caller(clf.lock)
        dev.lock_owner = frontend_lock_owner(clf)
        fn, line, chain = clf_site(1)
        dev.trace.add("drv", "connect", [p], locked, clf.device is None, fn,
                      line, chain)
        if dev.hook is not None:
            # "current" for connect(): no stale device is installed
            dev.hook(dev, "connect", locked, clf.device is None, fn, line)
        return dev.open_result if hasattr(dev, "open_result") else dev
    nfc.clf.device.connect = connect
    try:
        return clf.open(path)
    finally:
        nfc.clf.device.connect = real
