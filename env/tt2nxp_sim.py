"""NTAG21x / MIFARE Ultralight EV1 simulator (environment model for C20).

Written from the NXP product data sheets (NTAG210/212, NTAG213/215/216,
MF0ULx1), independent of nfcpy:

* memory of `npages` 4-byte pages; the last four pages are CFG0, CFG1, PWD
  and PACK+RFU; PWD and PACK always read back as zero;
* READ (30h) returns 16 bytes and rolls over to page 0 after the last page,
  WRITE (A2h) stores 4 bytes, GET_VERSION (60h) returns the 8 version bytes,
  PWD_AUTH (1Bh) returns the two PACK bytes iff the 4 password bytes equal the
  stored PWD;
* every error (wrong password, address outside the memory, unknown or
  malformed command) is answered with a NAK and the tag falls back to
  IDLE/HALT, i.e. stays mute until the reader senses it again.  How the
  driver surfaces the 4-bit NAK is a parameter: as a one-byte response with
  the NAK value, or as a time-out (the repository's tests use the latter).

Not modelled (stated in OUTSIDE of the harness): access restrictions from
AUTH0/PROT, AUTHLIM counting, lock bits, counters, signature.

Loaded through the symx loader in symbolic mode: `bytearray` here builds a
symbolic-capable byte string; natively it is the builtin.

For C16 (transient faults): NxpHookSim puts NxpSim behind the fault hook of
env.tags.SimBase, and UlcSim is a MIFARE Ultralight C (MF0ICU2) with the
3DES mutual authentication, built on env.tags.Tt2Sim.
"""
import nfc.clf
from env import tags

# product -> (version bytes, pages, first configuration page)
PRODUCTS = {
    "NTAG210": (b"\x00\x04\x04\x01\x01\x00\x0B\x03", 20, 16),
    "NTAG212": (b"\x00\x04\x04\x01\x01\x00\x0E\x03", 41, 37),
    "NTAG213": (b"\x00\x04\x04\x02\x01\x00\x0F\x03", 45, 41),
    "NTAG215": (b"\x00\x04\x04\x02\x01\x00\x11\x03", 135, 131),
    "NTAG216": (b"\x00\x04\x04\x02\x01\x00\x13\x03", 231, 227),
    "MF0UL11": (b"\x00\x04\x03\x01\x01\x00\x0B\x03", 20, 16),
    "MF0ULH11": (b"\x00\x04\x03\x02\x01\x00\x0B\x03", 20, 16),
    "MF0UL21": (b"\x00\x04\x03\x01\x01\x00\x0E\x03", 41, 37),
    "MF0ULH21": (b"\x00\x04\x03\x02\x01\x00\x0E\x03", 41, 37),
}


class NxpSim(object):
    def __init__(self, product, pwd, pack, nak_as="timeout", page3=None):
        """pwd: 4 items, pack: 2 items (ints or symbolic ints)"""
        self.version, self.npages, self.cfg = PRODUCTS[product]
        self.pages = [[0, 0, 0, 0] for _ in range(self.npages)]
        self.pages[0] = [0x04, 0x51, 0x7C, 0xA1]
        self.pages[1] = [0xE1, 0xED, 0x25, 0x80]
        if page3 is not None:
            self.pages[3] = list(page3)
        self.pages[self.cfg] = [0, 0, 0, 0xFF]      # AUTH0 = FFh: nothing protected
        self.pages[self.cfg + 2] = list(pwd)
        self.pages[self.cfg + 3] = list(pack) + [0, 0]
        self.nak_as = nak_as
        self.mute = False
        self.authenticated = False
        self.log = []                # (command name, argument)
        self.tamper = None           # callable(cmd, rsp) -> rsp seen by the reader

    # -- what the tag holds
    def pwd(self):
        return list(self.pages[self.cfg + 2])

    def pack(self):
        return list(self.pages[self.cfg + 3][0:2])

    # -- air interface
    def nak(self, value):
        self.mute = True
        self.authenticated = False
        if self.nak_as == "timeout":
            raise nfc.clf.TimeoutError("nak")
        return bytearray([value])

    def exchange(self, cmd, timeout):
        if self.mute or getattr(self, "gone", False):
            raise nfc.clf.TimeoutError("tag in idle/halt state or gone")
        rsp = self.execute(cmd)
        if self.tamper is not None:
            rsp = self.tamper(cmd, rsp)
        return rsp

    def resense(self):
        self.mute = False
        self.authenticated = False
        return True

    def execute(self, cmd):
        n = len(cmd)
        op = cmd[0] if n else None
        if op == 0x30 and n == 2:
            page = cmd[1]
            if page >= self.npages:
                return self.nak(0x00)
            self.log.append(("read", page))
            out = []
            for i in range(4):
                p = (page + i) % self.npages
                if p in (self.cfg + 2, self.cfg + 3):
                    out += [0, 0, 0, 0]
                else:
                    out += self.pages[p]
            return bytearray(out)
        if op == 0xA2 and n == 6:
            page = cmd[1]
            if page < 2 or page >= self.npages:
                return self.nak(0x00)
            self.log.append(("write", page))
            self.pages[page] = [cmd[2], cmd[3], cmd[4], cmd[5]]
            return bytearray([0x0A])
        if op == 0x60 and n == 1:
            self.log.append(("version", None))
            return bytearray(self.version)
        if op == 0x1B and n == 5:
            self.log.append(("pwd_auth", None))
            # one (possibly symbolic) comparison of the four bytes
            ok = bytearray(cmd[1:5]) == bytearray(self.pwd())
            if not ok:
                return self.nak(0x04)
            self.authenticated = True
            return bytearray(self.pack())
        return self.nak(0x00)


class NxpClf(object):
    """what a Type 2 Tag object needs from a ContactlessFrontend"""

    def __init__(self, sim):
        self.sim = sim
        self.nsense = 0

    def exchange(self, data, timeout):
        return self.sim.exchange(data, timeout)

    def sense(self, *targets, **kw):
        self.nsense += 1
        if getattr(self.sim, "gone", False):
            return None                 # the tag has left the field
        self.sim.resense()
        return targets[0]


def target():
    t = nfc.clf.RemoteTarget("106A")
    t.sens_res = bytearray(b"\x44\x00")
    t.sel_res = bytearray(b"\x00")
    t.sdd_res = bytearray(b"\x04\x51\x7C\xA1\xE1\xED\x25\x80")
    return t


class NxpHookSim(NxpSim):
    """NxpSim behind the fault-injection interface of env.tags.SimBase (C16):
    `hook(sim, cmd)` runs at the start of every exchange and either raises
    (command lost, tag does not execute) or returns an exception that is
    raised after the tag executed (response lost); `sent` lists
    (command, answered?) of the commands that reached the tag; `mem` is the
    memory as one flat list.  Used with env.tags.SimClf."""

    def __init__(self, *args, **kwargs):
        NxpSim.__init__(self, *args, **kwargs)
        self.hook = None
        self.sent = []
        self.gone = False
        self.ncmd = 0

    def exchange(self, cmd, timeout):
        self.ncmd += 1
        if self.gone:
            raise nfc.clf.TimeoutError("tag gone")
        drop = None
        if self.hook is not None:
            drop = self.hook(self, cmd)      # may raise (command lost)
        if self.gone or self.mute:
            raise nfc.clf.TimeoutError("tag in idle/halt state")
        self.sent.append((list(cmd), False))
        rsp = self.execute(cmd)
        if drop is not None:
            raise drop                       # executed, response lost/garbled
        self.sent[-1] = (self.sent[-1][0], True)
        return rsp

    def is_write(self, cmd):
        return len(cmd) > 0 and cmd[0] == 0xA2

    def resense(self):
        if self.gone:
            return False
        return NxpSim.resense(self)

    @property
    def mem(self):
        out = []
        for p in self.pages:
            out += p
        return out


# ----------------------------------------------------------------------------
# MIFARE Ultralight C (MF0ICU2)
# ----------------------------------------------------------------------------
class UlcCipher(object):
    """two-key triple DES in CBC mode by pyDes itself (all inputs concrete;
    a symbolic byte reaching it ends the path as Unsupported)"""

    def _des(self, key, iv):
        import pyDes
        return pyDes.triple_des(bytes(bytearray(key)), pyDes.CBC,
                                bytes(bytearray(iv)))

    def encrypt(self, key, iv, data):
        return list(bytearray(self._des(key, iv).encrypt(bytes(bytearray(data)))))

    def decrypt(self, key, iv, data):
        return list(bytearray(self._des(key, iv).decrypt(bytes(bytearray(data)))))


def ulc_key_pages(key):
    """the 16 memory bytes of pages 44..47 for the 3DES key K1 || K2 (each
    half is stored byte-reversed: page 44 holds K1 bytes 7..4, ...)"""
    key = list(key)
    return [key[7 - i] for i in range(8)] + [key[15 - i] for i in range(8)]


class UlcSim(tags.Tt2Sim):
    """MIFARE Ultralight C, written from the product data sheet MF0ICU2,
    independent of nfcpy; built on env.tags.Tt2Sim (fault hook, logs).

    * 48 pages of 4 bytes: 0-1 UID, 2 lock bytes, 3 OTP, 4-39 user memory,
      40 lock bytes, 41 counter, 42 AUTH0, 43 AUTH1, 44-47 3DES key
      (write-only).  Lock bits, OTP and counter are plain memory here.
    * READ (30h) returns 16 bytes and rolls over to page 0 behind page 43
      (behind the last readable page when reading is restricted); pages 44-47
      cannot be read (NAK).  WRITE (A2h) stores one page.
    * AUTHENTICATE: `1A 00` is answered with AFh || ek(RndB) (CBC, IV 0);
      `AF` || ek(RndA || RndB') (IV = ek(RndB)) is answered with
      00h || ek(RndA') (IV = last cipher block received) iff RndB' is RndB
      rotated left by one byte, NAK otherwise.  A second `1A 00` restarts the
      handshake with a new RndB; any other command while part 2 is awaited is
      NAKed.  `AF` without a handshake in progress is an unknown command.
    * AUTH0 = first page that needs authentication; AUTH1 bit 0: 1 = only
      writing is restricted, 0 = reading too.  AUTH0, AUTH1 and the key become
      effective with the next activation (resense), which also ends the
      authenticated state.
    * a NAK leaves the tag mute until it is sensed again (Tt2Sim.nak)."""
    ulc = True

    def __init__(self, mem, uid, key, auth0=0x30, auth1=0x00, cipher=None):
        assert len(mem) == 192
        tags.Tt2Sim.__init__(self, mem, uid=uid)
        mem[160:168] = [0] * 8
        mem[168:172] = [auth0, 0, 0, 0]
        mem[172:176] = [auth1, 0, 0, 0]
        mem[176:192] = ulc_key_pages(key)
        self.cipher = cipher or UlcCipher()
        self.authenticated = False
        self.pending = None          # (RndB, ek(RndB)) while part 2 is awaited
        self.nchallenge = 0
        self.latch()

    def latch(self):
        m = self.mem
        self.key_eff = [m[183 - i] for i in range(8)] + [m[191 - i] for i in range(8)]
        self.auth0_eff = m[168]
        self.auth1_eff = m[172]

    def resense(self):
        if not tags.Tt2Sim.resense(self):
            return False
        self.pending = None
        self.authenticated = False
        self.latch()
        return True

    def nak(self):
        self.pending = None
        self.authenticated = False
        return tags.Tt2Sim.nak(self)

    def stored_key(self):
        """K1 || K2 as stored in pages 44..47 right now"""
        m = self.mem
        return [m[183 - i] for i in range(8)] + [m[191 - i] for i in range(8)]

    def execute(self, cmd):
        n = len(cmd)
        op = cmd[0] if n else None
        if self.pending is not None:
            rndb, ekb = self.pending
            self.pending = None
            if op == 0xAF and n == 17:
                return self.auth_part2(cmd, rndb, ekb)
            if not (op == 0x1A and n == 2 and cmd[1] == 0x00):
                return self.nak()
        if op == 0x1A and n == 2 and cmd[1] == 0x00:
            self.log.append(("auth1", self.nchallenge))
            self.authenticated = False
            k = self.nchallenge
            self.nchallenge += 1
            rndb = [(0x3C + 17 * k + 29 * i) & 0xFF for i in range(8)]
            ekb = self.cipher.encrypt(self.key_eff, [0] * 8, rndb)
            self.pending = (rndb, ekb)
            return bytearray([0xAF] + ekb)
        if op == 0x30 and n == 2:
            page = cmd[1]
            limit = 44
            if not self.authenticated and (self.auth1_eff & 1) == 0 and self.auth0_eff < 44:
                limit = self.auth0_eff
            if page >= limit:
                return self.nak()
            self.log.append(("read", page * 4))
            out = []
            for i in range(4):
                p = (page + i) % limit
                out += self.mem[p * 4:p * 4 + 4]
            return bytearray(out)
        if op == 0xA2 and n == 6:
            page = cmd[1]
            if page < 2 or page >= 48:
                return self.nak()
            if not self.authenticated and page >= self.auth0_eff:
                return self.nak()
            return tags.Tt2Sim.execute(self, cmd)
        if op == 0xAF:
            self.log.append(("auth2_without_auth1", 0))
        # anything else (incl. SECTOR SELECT, GET_VERSION): not supported
        self.pending = None
        self.authenticated = False
        self.mute = True
        raise nfc.clf.TimeoutError("unknown command")

    def auth_part2(self, cmd, rndb, ekb):
        data = [cmd[1 + i] for i in range(16)]
        plain = self.cipher.decrypt(self.key_eff, ekb, data)
        rnda, rot = plain[0:8], plain[8:16]
        if rot != rndb[1:8] + rndb[0:1]:
            self.log.append(("auth2_refused", 0))
            return self.nak()
        self.log.append(("auth2", 0))
        self.authenticated = True
        eka = self.cipher.encrypt(self.key_eff, data[8:16], rnda[1:8] + rnda[0:1])
        return bytearray([0x00] + eka)


def ulc_target(uid):
    t = nfc.clf.RemoteTarget("106A")
    t.sens_res = bytearray(b"\x44\x00")
    t.sel_res = bytearray(b"\x00")
    t.sdd_res = bytearray(uid)
    return t
