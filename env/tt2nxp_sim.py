"""NTAG21x / MIFARE Ultralight EV1 simulator (environment model for C20).

Written from the NXP product data sheets (NTAG210/212, NTAG213/215/216,
MF0ULx1), independent of nfcpy:

* memory of `npages` 4-byte pages; the last four pages are CFG0, CFG1, PWD
  and PACK+RFU; PWD and PACK always read back as zero;
* READ (30h) returns 16 bytes and rolls over to page 0 after the last page,
  WRITE (A2h) stores 4 bytes, GET_VERSION (60h) returns the 8 version bytes,
  PWD_AUTH (1Bh) returns the two PACK bytes iff the 4 password bytes equal the
  stored PWD;
* every error (wrong password, address outside the memory, unknown or
  malformed command) is answered with a NAK and the tag falls back to
  IDLE/HALT, i.e. stays mute until the reader senses it again.  How the
  driver surfaces the 4-bit NAK is a parameter: as a one-byte response with
  the NAK value, or as a time-out (the repository's tests use the latter).

Not modelled (stated in OUTSIDE of the harness): access restrictions from
AUTH0/PROT, AUTHLIM counting, lock bits, counters, signature.

Loaded through the symx loader in symbolic mode: `bytearray` here builds a
symbolic-capable byte string; natively it is the builtin.
"""
import nfc.clf

# product -> (version bytes, pages, first configuration page)
PRODUCTS = {
    "NTAG210": (b"\x00\x04\x04\x01\x01\x00\x0B\x03", 20, 16),
    "NTAG212": (b"\x00\x04\x04\x01\x01\x00\x0E\x03", 41, 37),
    "NTAG213": (b"\x00\x04\x04\x02\x01\x00\x0F\x03", 45, 41),
    "NTAG215": (b"\x00\x04\x04\x02\x01\x00\x11\x03", 135, 131),
    "NTAG216": (b"\x00\x04\x04\x02\x01\x00\x13\x03", 231, 227),
    "MF0UL11": (b"\x00\x04\x03\x01\x01\x00\x0B\x03", 20, 16),
    "MF0ULH11": (b"\x00\x04\x03\x02\x01\x00\x0B\x03", 20, 16),
    "MF0UL21": (b"\x00\x04\x03\x01\x01\x00\x0E\x03", 41, 37),
    "MF0ULH21": (b"\x00\x04\x03\x02\x01\x00\x0E\x03", 41, 37),
}


class NxpSim(object):
    def __init__(self, product, pwd, pack, nak_as="timeout", page3=None):
        """pwd: 4 items, pack: 2 items (ints or symbolic ints)"""
        self.version, self.npages, self.cfg = PRODUCTS[product]
        self.pages = [[0, 0, 0, 0] for _ in range(self.npages)]
        self.pages[0] = [0x04, 0x51, 0x7C, 0xA1]
        self.pages[1] = [0xE1, 0xED, 0x25, 0x80]
        if page3 is not None:
            self.pages[3] = list(page3)
        self.pages[self.cfg] = [0, 0, 0, 0xFF]      # AUTH0 = FFh: nothing protected
        self.pages[self.cfg + 2] = list(pwd)
        self.pages[self.cfg + 3] = list(pack) + [0, 0]
        self.nak_as = nak_as
        self.mute = False
        self.authenticated = False
        self.log = []                # (command name, argument)
        self.tamper = None           # callable(cmd, rsp) -> rsp seen by the reader

    # -- what the tag holds
    def pwd(self):
        return list(self.pages[self.cfg + 2])

    def pack(self):
        return list(self.pages[self.cfg + 3][0:2])

    # -- air interface
    def nak(self, value):
        self.mute = True
        self.authenticated = False
        if self.nak_as == "timeout":
            raise nfc.clf.TimeoutError("nak")
        return bytearray([value])

    def exchange(self, cmd, timeout):
        if self.mute:
            raise nfc.clf.TimeoutError("tag in idle/halt state")
        rsp = self.execute(cmd)
        if self.tamper is not None:
            rsp = self.tamper(cmd, rsp)
        return rsp

    def resense(self):
        self.mute = False
        self.authenticated = False
        return True

    def execute(self, cmd):
        n = len(cmd)
        op = cmd[0] if n else None
        if op == 0x30 and n == 2:
            page = cmd[1]
            if page >= self.npages:
                return self.nak(0x00)
            self.log.append(("read", page))
            out = []
            for i in range(4):
                p = (page + i) % self.npages
                if p in (self.cfg + 2, self.cfg + 3):
                    out += [0, 0, 0, 0]
                else:
                    out += self.pages[p]
            return bytearray(out)
        if op == 0xA2 and n == 6:
            page = cmd[1]
            if page < 2 or page >= self.npages:
                return self.nak(0x00)
            self.log.append(("write", page))
            self.pages[page] = [cmd[2], cmd[3], cmd[4], cmd[5]]
            return bytearray([0x0A])
        if op == 0x60 and n == 1:
            self.log.append(("version", None))
            return bytearray(self.version)
        if op == 0x1B and n == 5:
            self.log.append(("pwd_auth", None))
            # one (possibly symbolic) comparison of the four bytes
            ok = bytearray(cmd[1:5]) == bytearray(self.pwd())
            if not ok:
                return self.nak(0x04)
            self.authenticated = True
            return bytearray(self.pack())
        return self.nak(0x00)


class NxpClf(object):
    """what a Type 2 Tag object needs from a ContactlessFrontend"""

    def __init__(self, sim):
        self.sim = sim
        self.nsense = 0

    def exchange(self, data, timeout):
        return self.sim.exchange(data, timeout)

    def sense(self, *targets, **kw):
        self.nsense += 1
        self.sim.resense()
        return targets[0]


def target():
    t = nfc.clf.RemoteTarget("106A")
    t.sens_res = bytearray(b"\x44\x00")
    t.sel_res = bytearray(b"\x00")
    t.sdd_res = bytearray(b"\x04\x51\x7C\xA1\xE1\xED\x25\x80")
    return t
