"""Real driver Device objects on top of a HostLink (C13, C14).

The Device and Chipset classes are the repository's; they are constructed
through their real __init__, the HostLink answering the initialisation
commands like the mocked transports of tests/test_clf_*.py do.  The
module-level init(transport) functions (USB soft reset, serial baud-rate
probing, /proc reads, Arygon MCU version dialogue) are NOT executed.
"""
import nfc.clf
import nfc.clf.pn531
import nfc.clf.pn532
import nfc.clf.pn533
import nfc.clf.rcs956
import nfc.clf.rcs380
import nfc.clf.acr122
import nfc.clf.arygon
from env.hostlink import HostLink, init_chip

DRIVERS = ['pn531', 'pn532', 'pn533', 'rcs956', 'acr122', 'arygonA',
           'arygonB', 'rcs380']

# chip model (for firmware answers / register command format) per driver
MODEL = dict(pn531='pn531', pn532='pn532', pn533='pn533', rcs956='rcs956',
             acr122='acr122', arygonA='pn531', arygonB='pn532',
             rcs380='rcs380')
FRAMING = dict(pn531='pn53x', pn532='pn53x', pn533='pn53x', rcs956='pn53x',
               acr122='ccid', arygonA='arygon', arygonB='arygon',
               rcs380='rcs380')


def make_chipset(sx, driver):
    """-> (chipset, link); for rcs380/acr122 this runs the chipset's
    initialisation dialogue"""
    model = MODEL[driver]
    link = HostLink(sx, FRAMING[driver], init_chip(model))
    if driver == 'pn531':
        cs = nfc.clf.pn531.Chipset(link, logger=nfc.clf.pn531.log)
    elif driver == 'pn532':
        cs = nfc.clf.pn532.Chipset(link, logger=nfc.clf.pn532.log)
    elif driver == 'pn533':
        cs = nfc.clf.pn533.Chipset(link, logger=nfc.clf.pn533.log)
    elif driver == 'rcs956':
        cs = nfc.clf.rcs956.Chipset(link, logger=nfc.clf.rcs956.log)
    elif driver == 'acr122':
        cs = nfc.clf.acr122.Chipset(link)
    elif driver == 'arygonA':
        cs = nfc.clf.arygon.ChipsetA(link, logger=nfc.clf.arygon.log)
    elif driver == 'arygonB':
        cs = nfc.clf.arygon.ChipsetB(link, logger=nfc.clf.arygon.log)
    elif driver == 'rcs380':
        cs = nfc.clf.rcs380.Chipset(link, logger=nfc.clf.rcs380.log)
    else:
        raise ValueError(driver)
    return cs, link


_CACHE = {}


def make_device(sx, driver, reuse=True):
    """-> (device, link) with the device initialised and the link idle.

    The initialisation dialogue is concrete and deterministic and the drivers
    keep no state that an exchange modifies (chipset, logger, name strings,
    PN533 EEPROM copy), so with reuse=True the objects built by the first call
    in this process are handed out again with a reset HostLink; every process
    (pool worker, native replay) still runs the real __init__ once."""
    if reuse and driver in _CACHE:
        dev, link = _CACHE[driver]
        link.sx = sx
        link.written = []
        link.raw = None
        link.closed = False
        link.begin(chip=init_chip(MODEL[driver]))
        if dev.chipset is None or dev.chipset.transport is not link:
            raise AssertionError("cached %s device was closed or re-wired" % driver)
        return dev, link
    cs, link = make_chipset(sx, driver)
    if driver == 'pn531':
        dev = nfc.clf.pn531.Device(cs, logger=nfc.clf.pn531.log)
    elif driver == 'pn532':
        dev = nfc.clf.pn532.Device(cs, logger=nfc.clf.pn532.log)
    elif driver == 'pn533':
        dev = nfc.clf.pn533.Device(cs, logger=nfc.clf.pn533.log)
    elif driver == 'rcs956':
        dev = nfc.clf.rcs956.Device(cs, logger=nfc.clf.rcs956.log)
    elif driver == 'acr122':
        dev = nfc.clf.acr122.Device(cs)
    elif driver == 'arygonA':
        dev = nfc.clf.arygon.DeviceA(cs, logger=nfc.clf.arygon.log)
    elif driver == 'arygonB':
        dev = nfc.clf.arygon.DeviceB(cs, logger=nfc.clf.arygon.log)
    elif driver == 'rcs380':
        dev = nfc.clf.rcs380.Device(cs, logger=nfc.clf.rcs380.log)
    dev._path = "usb:001:001"
    if link.queue:
        raise AssertionError("HostLink: initialisation dialogue of %s left "
                             "the link in an unexpected state" % driver)
    link.begin()
    if reuse:
        _CACHE[driver] = (dev, link)
    return dev, link


def make_frontend(device):
    """ContactlessFrontend as clf/__init__.py builds it, without open()"""
    import threading
    clf = nfc.clf.ContactlessFrontend.__new__(nfc.clf.ContactlessFrontend)
    clf.device = device
    clf.target = None
    clf.lock = threading.Lock()
    return clf
