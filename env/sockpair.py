"""SockPair - a data link connection between two blocking call stacks (C06).

Model of what nfc.llcp offers to a connected pair of DATA_LINK_CONNECTION
sockets, written from the behaviour of nfc.llcp.llc / tco.DataLinkConnection:

* reliable, ordered, boundary preserving: every send() is one message at the
  peer's recv(); nothing is lost, duplicated or merged;
* send(data): TypeError unless bytes/bytearray; Error(EMSGSIZE) when longer
  than the send MIU of that direction; Error(EPIPE) when the peer has closed;
  Error(ENOTCONN) on a closed socket; returns True;
* recv(): next message (bytes), blocks while there is none; None once the peer
  has closed and everything was read;
* poll("recv", timeout): True when a message is ready; False when the peer
  closed or (timeout given) nothing arrives; poll("send") True;
* getsockopt(SO_SNDMIU / SO_RCVMIU), setsockopt (accepted, value returned),
  bind/listen/accept/connect/getsockname/getpeername as far as the SNEP and
  handover code calls them; close().

`FakeLLC` is handed to the real nfc.llcp.Socket wrapper in place of the
logical link controller, so the code under test uses its normal socket objects.

Two call stacks, no free-running threads: the client runs in the calling
thread, the server function in a second OS thread, and exactly one of them
is runnable at any time.  The baton changes hands only inside a blocking
recv()/poll() (strict alternation; the solver is used by one thread at a
time).  When both sides wait for each other the side whose poll() has a
time-out gets it (virtual clock); if neither has one the run is a deadlock
and `Deadlock` is raised in the client stack.
"""
import errno
import threading
import nfc.llcp
from symx.envpatch import CLOCK

SNEP_SAP, CLIENT_SAP = 4, 32


class Deadlock(Exception):
    """client and server both wait for a message, for ever"""


class _Kill(BaseException):
    """unwinds the parked server stack when the run is abandoned"""


class _Tco(object):
    def __init__(self, side, kind):
        self.side, self.kind = side, kind     # kind: 'data' | 'listen'


class Link(object):
    def __init__(self, miu_c2s, miu_s2c):
        self.cv = threading.Condition()
        self.turn = 'c'
        self.inbox = {'c': [], 's': []}
        self.closed = {'c': False, 's': False}
        self.blocked = {'c': None, 's': None}      # (kind, timeout) while parked
        self.timed_out = {'c': False, 's': False}
        self.send_miu = {'c': miu_c2s, 's': miu_s2c}
        self.sent = {'c': [], 's': []}             # every message, in order
        self.kill = False
        self.server_exc = None
        self.server_done = True                    # until a server is started
        self.thread = None
        self.nclose = {'c': 0, 's': 0}

    # ------------------------------------------------------------ scheduling
    def start_server(self, fn):
        """fn() is the server's per-connection function; it starts running
        when the client first blocks"""
        self.server_done = False

        def run():
            try:
                with self.cv:
                    while self.turn != 's':
                        self.cv.wait()
                    if self.kill:
                        return
                fn()
            except _Kill:
                pass
            except BaseException as e:     # incl. engine control flow
                self.server_exc = e
            finally:
                with self.cv:
                    self.server_done = True
                    self.closed['s'] = True
                    self.turn = 'c'
                    self.cv.notify_all()
        self.thread = threading.Thread(target=run, daemon=True)
        self.thread.start()

    def _handover(self, me):
        """cv held.  Let the other stack run until it blocks or ends."""
        other = 's' if me == 'c' else 'c'
        self.turn = other
        self.cv.notify_all()
        while self.turn != me:
            self.cv.wait()
        if me == 's' and self.kill:
            raise _Kill()
        if me == 'c' and self.server_exc is not None:
            e, self.server_exc = self.server_exc, None
            raise e

    def _peer_gone(self, me):
        other = 's' if me == 'c' else 'c'
        return self.closed[other] or (other == 's' and self.server_done)

    def _wait(self, me, kind, timeout):
        """-> True: message ready; None: peer closed; False: timed out"""
        other = 's' if me == 'c' else 'c'
        with self.cv:
            while True:
                if self.inbox[me]:
                    return True
                if self._peer_gone(me):
                    return None
                if self.blocked[other] is not None and not self.inbox[other]:
                    # the peer waits for us and we would wait for the peer
                    if timeout is not None:
                        CLOCK.sleep(timeout)
                        return False
                    if self.blocked[other][1] is not None:
                        self.timed_out[other] = True
                    else:
                        raise Deadlock("%s %s() and peer %s() wait for each other"
                                       % (me, kind, self.blocked[other][0]))
                self.blocked[me] = (kind, timeout)
                try:
                    self._handover(me)
                finally:
                    self.blocked[me] = None
                if self.timed_out[me]:
                    self.timed_out[me] = False
                    CLOCK.sleep(timeout)
                    return False

    def finish(self):
        """client is done: close its end and let the server run to its end"""
        with self.cv:
            self.closed['c'] = True
            if not self.server_done:
                self.blocked['c'] = ('finish', None)
                try:
                    self._handover('c')
                finally:
                    self.blocked['c'] = None
        if self.thread is not None:
            self.thread.join(30)

    def abort(self):
        """run abandoned (exception in the client stack): unwind the server"""
        with self.cv:
            if self.thread is None or self.server_done:
                return
            self.kill = True
            self.closed['c'] = True
            self.server_exc = None
            self.turn = 's'
            self.cv.notify_all()
            while not self.server_done:
                self.cv.wait(10)
            self.server_exc = None
        self.thread.join(30)


class FakeLLC(object):
    """what nfc.llcp.Socket calls on the logical link controller"""

    def __init__(self, link, side):
        self.link, self.side = link, side

    def socket(self, sock_type):
        if sock_type != nfc.llcp.DATA_LINK_CONNECTION:
            raise nfc.llcp.Error(errno.EPROTONOSUPPORT)
        return _Tco(self.side, 'data')

    def setsockopt(self, tco, option, value):
        return value

    def getsockopt(self, tco, option):
        other = 's' if self.side == 'c' else 'c'
        if option == nfc.llcp.SO_SNDMIU:
            return self.link.send_miu[self.side]
        if option == nfc.llcp.SO_RCVMIU:
            return self.link.send_miu[other]
        if option == nfc.llcp.SO_RCVBUF:
            return 1
        return None

    def bind(self, tco, address=None):
        tco.kind = 'listen'

    def listen(self, tco, backlog):
        pass

    def accept(self, tco):
        return _Tco(self.side, 'data')

    def connect(self, tco, address):
        if self.link.server_done:
            raise nfc.llcp.ConnectRefused(0x02)

    def getsockname(self, tco):
        return SNEP_SAP if self.side == 's' else CLIENT_SAP

    def getpeername(self, tco):
        return CLIENT_SAP if self.side == 's' else SNEP_SAP

    def resolve(self, name):
        return SNEP_SAP

    def send(self, tco, data, flags=0):
        link, me = self.link, self.side
        other = 's' if me == 'c' else 'c'
        if not isinstance(data, (bytes, bytearray)):
            raise TypeError("message data must be a bytes-like object")
        if link.closed[me]:
            raise nfc.llcp.Error(errno.ENOTCONN)
        if link._peer_gone(me):
            raise nfc.llcp.Error(errno.EPIPE)
        if len(data) > link.send_miu[me]:
            raise nfc.llcp.Error(errno.EMSGSIZE)
        msg = bytes(data)
        link.sent[me].append(msg)
        link.inbox[other].append(msg)
        return True

    def recv(self, tco):
        link, me = self.link, self.side
        if link.closed[me]:
            raise nfc.llcp.Error(errno.ENOTCONN)
        if link._wait(me, 'recv', None):
            return link.inbox[me].pop(0)
        return None

    def poll(self, tco, event, timeout=None):
        link, me = self.link, self.side
        if link.closed[me]:
            return None
        if event == "send":
            return True
        if event != "recv":
            raise nfc.llcp.Error(errno.EINVAL)
        return bool(link._wait(me, 'poll', timeout))

    def close(self, tco):
        if tco.kind == 'data':
            self.link.closed[self.side] = True
            self.link.nclose[self.side] += 1
