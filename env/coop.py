"""CoopThreading - cooperative replacement of `threading` for the C09 harness.

What the *environment* gives to nfc.llcp.tco / nfc.llcp.llc / nfc.snep.server /
nfc.handover.server through their module attribute `threading` is replaced by
`THREADING` below (RLock, Lock, Condition, Thread).  No nfc source line is
changed and the same model is used in symbolic and in native (replay) mode, so
every schedule the check reports is reproduced deterministically on the
unmodified package.

Logical threads inside ONE OS thread
------------------------------------
* 'setup'  builds the scenario.  Never preempted.  A `wait()` without time-out
           raises `SetupBlock` (the call is abandoned where a real thread would
           sleep; everything done before the wait stays done).
* 'app'    the application call under test.
* 'link'   the thread that runs the LLC run loop.  It is a *script* of steps
           (callables); a step runs to completion, inline, at a preemption
           point of the app thread.

Preemption points of the app thread (numbered 1.. in program order; point n
asks the symbolic flag `preempt_<n>` lazily, i.e. the engine forks there):
* 'call'     before the call (asked by the harness through `Sched.point`),
* 'acquire'  every lock acquisition while the app thread holds no lock,
* 'nested'   every acquisition of a further lock while it holds one: a link
             step that then needs a lock the app thread holds while owning the
             one the app thread wants is a lock-order deadlock
             (`CoopDeadlock`); one that would merely have to wait is
             `Unrepresentable` (pruned by the harness, listed as assumption),
* 'line'     (fine mode only) every new source line of the traced nfc modules
             executed while the app thread holds no lock,
* 'wait'     inside `Condition.wait()`, after the lock has been released.
             - without time-out: nothing but the link thread can wake the app
               thread, so the next step is *forced* (no flag) until a notify
               on this condition happened; when the script is exhausted and
               no notify happened since the wait began the app thread is
               "left waiting for ever": `LeftWaiting`;
             - with time-out: flag true -> next step runs; flag false (or
               script exhausted) -> the wait times out (virtual clock
               advanced by the time-out);
             - after the wake-up further steps may run before the app thread
               re-acquires the lock ('wake' points, flag each).
As long as a flag is true at a point the following step may run at the same
point (a new flag is asked), so one point can take any number of steps.

Lock model: `CoopRLock` tracks owner (logical thread) and recursion count.
The app thread is only preempted while it owns no lock, except inside wait()
where it may still own *other* locks; a link step that needs a lock owned by
the sleeping app thread can never finish: `CoopDeadlock`.  A link step that
itself reaches a wait() without time-out sleeps until an application thread
notifies; within this model (one application call) that is `LinkBlocked`.

`PreemptSched` (below) turns the roles around for the C09 family
`link_preempted`: the link thread is preempted at its lock acquisitions (and
source lines) by one application call that runs in an OS thread of its own.

The exceptions are BaseException subclasses so that no handler of the code
under test can swallow them; the harness catches them at the call site.
"""
import sys
import types
import threading as _threading
from symx.envpatch import CLOCK


class CoopSignal(BaseException):
    """base of the scheduler's verdict signals (not engine control flow)"""


class LeftWaiting(CoopSignal):
    def __init__(self, site):
        CoopSignal.__init__(self, site)
        self.site = site


class LinkBlocked(CoopSignal):
    def __init__(self, site):
        CoopSignal.__init__(self, site)
        self.site = site


class CoopDeadlock(CoopSignal):
    """a link step needs a lock owned by the application thread, which in
    turn sleeps in wait() or wants a lock the link step owns (cycle)"""

    def __init__(self, site, held=None, wanted=None, link_holds=()):
        CoopSignal.__init__(self, site)
        self.site = site
        self.held = held            # lock of the app thread the link needs
        self.wanted = wanted        # lock the app thread is acquiring / None
        self.link_holds = link_holds


class Unrepresentable(CoopSignal):
    """a link step would have to wait for a lock the application thread
    owns although there is no cycle: the application thread would go on and
    the link step resume later - not a schedule of this model (link steps
    are atomic).  The harness prunes the path and says so."""

    def __init__(self, site):
        CoopSignal.__init__(self, site)
        self.site = site


class Livelock(CoopSignal):
    pass


class SetupBlock(Exception):
    """'setup' thread reached wait() without time-out (call abandoned)"""


def _site(depth=2):
    """qualified name of the function of the code under test that called the
    primitive (skips frames of this module)"""
    f = sys._getframe(depth)
    while f is not None and f.f_code.co_filename == __file__:
        f = f.f_back
    if f is None:
        return "?"
    return f.f_code.co_qualname


class Sched(object):
    MAX_WAITS = 64
    link_hook = None         # PreemptSched: callable(kind, site, lock) asked
    #                          at every preemption point of the link thread

    def __init__(self, sx=None):
        self.sx = sx
        self.current = 'setup'
        self.steps = []          # remaining link steps: (name, callable)
        self.npoints = 0
        self.ran = []            # [step name, point kind, site, point number]
        self.points = []         # [kind, site] of every point asked
        self.held = {'setup': 0, 'app': 0, 'link': 0}
        self.nwaits = 0
        self.waits = []          # sites of app waits
        self.spawned = []        # Thread objects started by the code
        self.fine = False
        self.trace_files = ()
        self.last_line = None
        self.app_wants = None    # lock the app thread is acquiring while it
        #                          owns another one (nested acquisition)
        self.locks = []          # every lock created on this path

    # ---- link thread
    def run_step(self, kind, site):
        name, fn = self.steps.pop(0)
        self.ran.append([name, kind, site, self.npoints])
        prev = self.current
        self.current = 'link'
        try:
            fn()
        finally:
            self.current = prev

    def ask(self, kind, site):
        """one preemption point: any number of steps while the flags say so"""
        while self.steps:
            self.npoints += 1
            self.points.append([kind, site])
            if self.sx.flag("preempt_%d" % self.npoints):
                self.run_step(kind, site)
            else:
                return

    def point(self, kind, site):
        """explicit preemption point (harness: before / between calls)"""
        if self.current == 'app' and self.held['app'] == 0:
            self.ask(kind, site)

    def finish(self):
        """the link thread runs what is left of its script (app not running)"""
        while self.steps:
            self.run_step('after', '-')

    # ---- fine mode: line granularity
    def tracer(self, frame, event, arg):
        if frame.f_code.co_filename in self.trace_files:
            return self.line_tracer
        return None

    def line_tracer(self, frame, event, arg):
        if event == 'line' and self.current == 'app' and \
                self.held['app'] == 0 and self.steps:
            self.ask('line', frame.f_code.co_qualname)
        return self.line_tracer

    def app_call(self, fn, *args, **kw):
        """run fn as the app thread (with line tracing in fine mode)"""
        prev = self.current
        self.current = 'app'
        if self.fine:
            old = sys.gettrace()
            sys.settrace(self.tracer)
        try:
            return fn(*args, **kw)
        finally:
            if self.fine:
                sys.settrace(old)
            self.current = prev


class ThreadSched(Sched):
    """Several application threads (C05): each is a real OS thread, but
    exactly one thread (an application thread or the harness's main thread,
    which plays 'setup' / 'link' and is the scheduler) runs at any time; the
    baton changes hands only where an application thread blocks in
    Condition.wait() or ends (non-preemptive schedules; z3 is used by one
    thread at a time).  Condition.notify(n) wakes the first n waiters in FIFO
    order, as threading.Condition does.  The main thread decides which woken
    thread runs next (`runnable()`, `run()`)."""

    def __init__(self, sx=None):
        Sched.__init__(self, sx)
        self.threads = {}
        self.cv = _threading.Condition()
        self.turn = 'main'

    class Rec(object):
        def __init__(self, name, fn):
            self.name, self.fn = name, fn
            self.state = 'new'          # new | parked | done
            self.cell = None            # [woken] while parked
            self.timed = False
            self.site = None
            self.kill = False
            self.result = None
            self.exc = None
            self.thread = None
            self.wants = None           # PreemptSched: lock waited for
            self.cond = None            # PreemptSched: condition waited on

    def spawn(self, name, fn):
        rec = ThreadSched.Rec(name, fn)
        self.threads[name] = rec
        self.held[name] = 0
        rec.thread = _threading.Thread(target=self._body, args=(rec,),
                                       daemon=True)
        rec.thread.start()
        return rec

    def _body(self, rec):
        with self.cv:
            while self.turn != rec.name:
                self.cv.wait()
        try:
            if rec.kill:
                raise LeftWaiting("not started")
            rec.result = rec.fn()
        except BaseException as e:      # incl. engine control flow: re-raised
            rec.exc = e                 # in the main thread by run()
        rec.state = 'done'
        with self.cv:
            self.turn = 'main'
            self.cv.notify_all()

    def _switch(self, to, me):
        with self.cv:
            self.turn = to
            self.cv.notify_all()
            while self.turn != me:
                self.cv.wait()

    def runnable(self):
        out = []
        for n in sorted(self.threads):
            r = self.threads[n]
            if r.state == 'new' or (r.state == 'parked' and r.cell[0]):
                out.append(n)
        return out

    def parked(self):
        return [n for n in sorted(self.threads)
                if self.threads[n].state == 'parked']

    def run(self, name, timeout=False):
        """main thread: let `name` run until it blocks or ends"""
        rec = self.threads[name]
        if rec.state == 'parked' and not rec.cell[0] and not rec.kill \
                and not (timeout and rec.timed):
            raise RuntimeError("coop: thread %s is not runnable" % name)
        prev = self.current
        self.current = name
        self._switch(name, 'main')
        self.current = prev
        e = rec.exc
        if e is not None and not isinstance(e, (Exception, CoopSignal)):
            rec.exc = None
            raise e                     # SxAbort and the like
        return rec.state

    def thread_wait(self, cond, timeout, site):
        rec = self.threads[self.current]
        if rec.kill:
            raise LeftWaiting(site)     # being unwound: never park again
        self.nwaits += 1
        self.waits.append(site)
        if self.nwaits > self.MAX_WAITS:
            raise Livelock(site)
        cell = [False]
        cond.waiters.append(cell)
        rec.cell, rec.site, rec.timed = cell, site, timeout is not None
        rec.state = 'parked'
        st = cond.lock._release_save()
        try:
            self._switch('main', rec.name)
            if rec.kill:
                raise LeftWaiting(site)
            if cond.lock.count:
                raise RuntimeError("coop: lock busy at wake-up of " + rec.name)
            if not cell[0]:
                if cell in cond.waiters:
                    cond.waiters.remove(cell)
                CLOCK.sleep(timeout)
                return False
            return True
        finally:
            rec.state = 'run'
            rec.cell = None
            cond.lock._acquire_restore(st)

    def shutdown(self):
        """end of the path: unwind every thread that has not ended"""
        for name in sorted(self.threads):
            rec = self.threads[name]
            if rec.state != 'done':
                rec.kill = True
                prev = self.current
                self.current = name
                self._switch(name, 'main')
                self.current = prev
            rec.thread.join(5)
        self.threads = {}


class PreemptSched(ThreadSched):
    """THE LINK THREAD IS PREEMPTED (C09 family `link_preempted`).  The link
    thread is the harness's main OS thread (logical thread 'link', run through
    `link_call`); the application call is an OS thread of ThreadSched (one
    thread running at any time).  Preemption points of the link thread, each
    reported to `link_hook(kind, site, lock)` which decides (symbolic flag)
    whether the application thread runs there - until it ends or blocks:
    * 'acquire'    the link thread acquires a lock it does not own,
    * 'reacquire'  ... a lock it owns already (RLock recursion),
    * 'release'    the link thread has let go of a lock (count 0) - where a
                   thread that waits for that lock may go on,
    * 'line'       before every source line of the functions `link_lines`
                   (qualified names) the link thread executes (the hook gets
                   the line number in place of the lock).
    An application thread that needs a lock another logical thread owns is
    descheduled there (`lock_wait`, state 'lockwait') and is runnable again
    when the lock is free.  The link thread meeting a lock owned by a
    descheduled application thread: `CoopDeadlock` when that thread can not
    go on (it waits for a lock / a notify), else `Unrepresentable`."""

    def __init__(self, sx=None):
        ThreadSched.__init__(self, sx)
        self.link_hook = None
        self.link_lines = ()
        self.lockwaits = []         # sites where an app thread met a held lock

    # ---- application threads
    def thread_wait(self, cond, timeout, site):
        self.threads[self.current].cond = cond
        return ThreadSched.thread_wait(self, cond, timeout, site)

    def lock_wait(self, lock, site):
        """application thread: descheduled until `lock` is free"""
        rec = self.threads[self.current]
        if rec.kill:
            raise LeftWaiting(site)
        self.lockwaits.append(site)
        rec.state, rec.wants, rec.site = 'lockwait', lock, site
        try:
            while True:
                self._switch('main', rec.name)
                if rec.kill:
                    raise LeftWaiting(site)
                if not lock.count:
                    return
        finally:
            rec.state, rec.wants = 'run', None

    def can_go_on(self, name):
        """the descheduled thread could run now: not started yet, waits for
        a lock that is free, or was notified and the condition's lock is
        free"""
        rec = self.threads[name]
        if rec.state == 'new':
            return True
        if rec.state == 'lockwait':
            return rec.wants.count == 0
        if rec.state == 'parked':
            return bool(rec.cell[0]) and rec.cond.lock.count == 0
        return False

    def link_blocked(self, lock, site):
        """the link thread needs `lock`, owned by a descheduled app thread"""
        rec = self.threads.get(lock.owner)
        mine = [k for k in self.locks if k.count and k.owner == 'link']
        if rec is not None and rec.state == 'parked' and \
                (rec.cell[0] or rec.timed):
            raise Unrepresentable(site)     # the owner would go on first
        if rec is not None and rec.state == 'lockwait' and \
                rec.wants not in mine:
            raise Unrepresentable(site)
        raise CoopDeadlock(site, lock, getattr(rec, 'wants', None), mine)

    # ---- the link thread
    def link_tracer(self, frame, event, arg):
        code = frame.f_code
        if code.co_filename in self.trace_files and \
                code.co_qualname in self.link_lines:
            return self.link_line_tracer
        return None

    def link_line_tracer(self, frame, event, arg):
        if event == 'line' and self.current == 'link' and \
                self.link_hook is not None:
            self.link_hook('line', frame.f_code.co_qualname, frame.f_lineno)
        return self.link_line_tracer

    def link_call(self, fn):
        """run fn as the link thread, preemptible"""
        prev = self.current
        self.current = 'link'
        if self.link_lines:
            old = sys.gettrace()
            sys.settrace(self.link_tracer)
        try:
            return fn()
        finally:
            if self.link_lines:
                sys.settrace(old)
            self.current = prev


SCHED = Sched()


def new_threaded(sx):
    global SCHED
    SCHED = ThreadSched(sx)
    return SCHED


def new_preempt(sx):
    global SCHED
    SCHED = PreemptSched(sx)
    return SCHED


def new_sched(sx):
    global SCHED
    SCHED = Sched(sx)
    return SCHED


class CoopRLock(object):
    def __init__(self):
        self.owner = None
        self.count = 0
        self.made = _site()      # who created it: names the lock in labels
        SCHED.locks.append(self)

    def acquire(self, blocking=True, timeout=-1):
        s = SCHED
        me = s.current
        if me == 'link' and s.link_hook is not None:
            # the link thread is preemptible (PreemptSched)
            s.link_hook('reacquire' if self.count and self.owner == me
                        else 'acquire', _site(), self)
        if self.count and self.owner != me and \
                isinstance(s, PreemptSched) and me in s.threads:
            # an application thread meets a held lock: descheduled until the
            # lock is free
            s.lock_wait(self, _site())
        if self.count and self.owner != me:
            # held by another logical thread
            if me == 'link' and isinstance(s, PreemptSched):
                s.link_blocked(self, _site())
            if me == 'link':
                want = s.app_wants
                mine = [k for k in s.locks if k.count and k.owner == 'link']
                if self.owner != 'app' or want is None or want in mine:
                    # the owner sleeps in wait() or wants what we own
                    raise CoopDeadlock(_site(), self, want, mine)
                raise Unrepresentable(_site())
            # app/setup meet a lock left behind by an abandoned setup call or
            # by the link thread: cannot happen (steps run to completion)
            raise RuntimeError("coop: lock owned by %s wanted by %s at %s"
                               % (self.owner, me, _site()))
        if self.count == 0:
            if me == 'app' and s.held['app'] == 0:
                s.ask('acquire', _site())
            elif me == 'app':
                # nested: the app thread owns another lock and wants this one
                s.app_wants = self
                try:
                    s.ask('nested', _site())
                finally:
                    s.app_wants = None
            s.held[me] += 1
        self.owner = me
        self.count += 1
        return True

    def release(self):
        if self.count == 0:
            raise RuntimeError("release unlocked lock")
        self.count -= 1
        if self.count == 0:
            SCHED.held[self.owner] -= 1
            was = self.owner
            self.owner = None
            if was == 'link' and SCHED.link_hook is not None:
                SCHED.link_hook('release', _site(), self)

    def locked(self):
        return self.count > 0

    def __enter__(self):
        return self.acquire()

    def __exit__(self, *a):
        self.release()

    # Condition support
    def _release_save(self):
        st = (self.owner, self.count)
        SCHED.held[self.owner] -= 1
        self.owner, self.count = None, 0
        return st

    def _acquire_restore(self, st):
        self.owner, self.count = st
        SCHED.held[self.owner] += 1


class CoopCondition(object):
    def __init__(self, lock=None):
        self.lock = lock if lock is not None else CoopRLock()
        self.gen = 0
        self.waiters = []        # threaded mode: [woken] cells, FIFO

    def acquire(self, *a, **kw):
        return self.lock.acquire(*a, **kw)

    def release(self):
        self.lock.release()

    def __enter__(self):
        return self.lock.acquire()

    def __exit__(self, *a):
        self.lock.release()

    def notify(self, n=1):
        if self.lock.owner != SCHED.current:
            raise RuntimeError("cannot notify on un-acquired lock")
        self.gen += 1
        # threaded mode: like threading.Condition, the first n waiters (FIFO)
        for w in self.waiters[:n]:
            w[0] = True
        del self.waiters[:n]

    def notify_all(self):
        self.notify(max(1, len(self.waiters)))

    notifyAll = notify_all

    def wait(self, timeout=None):
        s = SCHED
        me = s.current
        if self.lock.owner != me or self.lock.count == 0:
            raise RuntimeError("cannot wait on un-acquired lock")
        site = _site()
        if me in getattr(s, 'threads', ()):
            return s.thread_wait(self, timeout, site)
        if me == 'setup':
            if timeout is None:
                raise SetupBlock(site)
            CLOCK.sleep(timeout)
            return False
        if me == 'link':
            if timeout is None:
                raise LinkBlocked(site)
            CLOCK.sleep(timeout)
            return False
        s.nwaits += 1
        s.waits.append(site)
        if s.nwaits > s.MAX_WAITS:
            raise Livelock(site)
        gen = self.gen
        st = self.lock._release_save()
        try:
            while True:
                if self.gen != gen:
                    # notified; the link thread may go on before we run again
                    if s.held['app'] == 0:
                        s.ask('wake', site)
                    return True
                if not s.steps:
                    if timeout is None:
                        raise LeftWaiting(site)
                    CLOCK.sleep(timeout)
                    return False
                if timeout is None:
                    s.npoints += 1
                    s.points.append(['wait', site])
                    s.run_step('wait', site)
                else:
                    s.npoints += 1
                    s.points.append(['twait', site])
                    if s.sx.flag("preempt_%d" % s.npoints):
                        s.run_step('twait', site)
                    else:
                        CLOCK.sleep(timeout)
                        return False
        finally:
            self.lock._acquire_restore(st)

    def wait_for(self, predicate, timeout=None):
        r = predicate()
        while not r:
            if not self.wait(timeout) and timeout is not None:
                return predicate()
            r = predicate()
        return r


class CoopThread(object):
    """`threading.Thread` as far as the SNEP / handover servers use it: the
    thread is recorded, not run; the harness runs `spawned` threads as further
    application threads."""

    def __init__(self, group=None, target=None, name=None, args=(),
                 kwargs=None, daemon=None):
        self._coop_target = target
        self._coop_args = tuple(args)
        self._coop_kwargs = dict(kwargs or {})
        self._coop_name = name
        self._coop_started = False

    def start(self):
        self._coop_started = True
        SCHED.spawned.append(self)

    def run(self):
        if self._coop_target is not None:
            return self._coop_target(*self._coop_args, **self._coop_kwargs)

    def join(self, timeout=None):
        pass

    def is_alive(self):
        return False


def _shim():
    ns = types.SimpleNamespace()
    for k in dir(_threading):
        if not k.startswith("__"):
            setattr(ns, k, getattr(_threading, k))
    ns.RLock = CoopRLock
    ns.Lock = CoopRLock
    ns.Condition = CoopCondition
    ns.Thread = CoopThread
    return ns


THREADING = _shim()


class DetRandom(object):
    def choice(self, seq):
        return seq[0]


MODULES = ("nfc.llcp.tco", "nfc.llcp.llc", "nfc.snep.server",
           "nfc.handover.server")


def install():
    """bind the module attribute `threading` of the four modules to the
    cooperative model (idempotent; both modes)"""
    import importlib
    files = []
    for name in MODULES:
        m = importlib.import_module(name)
        m.threading = THREADING
        if hasattr(m, "random"):
            m.random = DetRandom()
        files.append(m.__file__)
    sock = importlib.import_module("nfc.llcp.socket")
    files.append(sock.__file__)
    return tuple(files)
