"""Environment models for C07 (bytes from the remote peer).

* `SymKeyDict`: a dict whose look-ups (`d[k]`, `d.get(k)`, `k in d`,
  `k in d.keys()`) with a *symbolic* key compare the key with every stored key
  (one fork per stored key) instead of hashing it.  With concrete keys - always
  so in the native replay - it is an ordinary dict.  Put in place of the plain
  dicts `llc.snl`, `ServiceDiscovery.sent` and `Type3TagEmulation.services`
  (tables owned by the local application, looked up with bytes of the peer).
* `ScriptClf`: the `clf` object under nfc.dep.Initiator / nfc.dep.Target:
  `sense()`, `listen()` and `exchange()` answer from a script; the script items
  are byte strings (what the peer sent), exception instances (what the driver
  raises) or callables(data) -> item.  When the script is exhausted the peer is
  silent (`nfc.clf.TimeoutError`).  More than `limit` exchanges raise
  `TooManyCalls` (BaseException): an endless loop made observable.
* `ScriptMac`: a nfc.dep.Initiator / Target whose activate()/exchange()/
  deactivate() answer from a script (the MAC under the logical link controller).
"""
import nfc.clf
import nfc.dep


class TooManyCalls(BaseException):
    """the code under test asked the environment more often than the bound the
    harness set (endless loop made observable in both modes)"""


def is_bytes(x):
    return isinstance(x, (bytes, bytearray)) or type(x).__name__ == 'SymBytes'


_MISSING = object()


class _Keys(object):
    def __init__(self, d):
        self.d = d

    def __contains__(self, key):
        return self.d.__contains__(key)

    def __iter__(self):
        return iter(list(dict.keys(self.d)))

    def __len__(self):
        return dict.__len__(self.d)


class SymKeyDict(dict):
    def __init__(self, sx, *args):
        dict.__init__(self, *args)
        self.sx = sx

    def _find(self, key):
        """-> stored key equal to `key` or _MISSING"""
        sx = self.sx
        if not sx.is_sym(key):
            if is_bytes(key):
                key = bytes(key)
            return key if dict.__contains__(self, key) else _MISSING
        for k in list(dict.keys(self)):
            if is_bytes(k) != is_bytes(key):
                continue
            if is_bytes(k) and len(k) != len(key):
                continue
            if sx.truth(sx.eq(key, k)):
                return k
        return _MISSING

    def __getitem__(self, key):
        k = self._find(key)
        if k is _MISSING:
            raise KeyError(key)
        return dict.__getitem__(self, k)

    def get(self, key, default=None):
        k = self._find(key)
        if k is _MISSING:
            return default
        return dict.__getitem__(self, k)

    def __contains__(self, key):
        return self._find(key) is not _MISSING

    def keys(self):
        return _Keys(self)


class ScriptClf(object):
    """what nfc.dep needs from a ContactlessFrontend"""

    def __init__(self, sx, limit=60):
        self.sx = sx
        self.limit = limit
        self.ncalls = 0
        self.sense_script = []      # per call: RemoteTarget | None | exception
        self.listen_result = None   # LocalTarget | None
        self.script = []            # answers to exchange()
        self.sent = []              # what the code under test transmitted
        self.on_exhausted = None    # callable(data) -> item, or None: silence

    def _tick(self):
        self.ncalls += 1
        if self.ncalls > self.limit:
            raise TooManyCalls("more than %d calls of the frontend" % self.limit)

    def sense(self, *targets, **options):
        self._tick()
        if not self.sense_script:
            return None
        r = self.sense_script.pop(0)
        if callable(r):
            r = r(targets[0])
        if isinstance(r, Exception):
            raise r
        return r

    def listen(self, target, timeout):
        self._tick()
        r = self.listen_result
        if callable(r):
            r = r(target)
        if isinstance(r, Exception):
            raise r
        return r

    def exchange(self, data, timeout):
        self._tick()
        self.sent.append(data)
        if self.script:
            r = self.script.pop(0)
        elif self.on_exhausted is not None:
            r = self.on_exhausted
        else:
            raise nfc.clf.TimeoutError("peer silent")
        if callable(r):
            r = r(data)
        if isinstance(r, Exception):
            raise r
        return r


class _ScriptMacMixin(object):
    def script_init(self, sx, gb, frames, rwt=0.0003, limit=40):
        self.sx = sx
        self.script_gb = gb
        self.script = list(frames)
        self.rwt = rwt
        self.ncalls = 0
        self.limit = limit
        self.sent = []
        self.deactivated = 0

    def activate(self, **options):
        self.activate_options = options
        return self.script_gb

    def exchange(self, send_data, timeout):
        self.ncalls += 1
        if self.ncalls > self.limit:
            raise TooManyCalls("more than %d exchanges" % self.limit)
        self.sent.append(send_data)
        if not self.script:
            raise nfc.clf.TimeoutError("peer silent")
        r = self.script.pop(0)
        if isinstance(r, Exception):
            raise r
        return r

    def deactivate(self, *args, **kwargs):
        self.deactivated += 1


class ScriptInitiator(_ScriptMacMixin, nfc.dep.Initiator):
    def __init__(self, sx, gb, frames, **kw):
        nfc.dep.Initiator.__init__(self, clf=None)
        self.script_init(sx, gb, frames, **kw)


class ScriptTarget(_ScriptMacMixin, nfc.dep.Target):
    def __init__(self, sx, gb, frames, **kw):
        nfc.dep.Target.__init__(self, clf=None)
        self.script_init(sx, gb, frames, **kw)
