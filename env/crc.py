"""CRC-16 of ISO/IEC 13239 as ISO/IEC 14443-3 uses it: an independent
definition, and the if-converted summary of the implementation.

reference(): the standard's polynomial division, written MSB-first.  The
message is the bit sequence in transmission order (least significant bit of
each byte first); the 16-bit register starts with the preset value, for every
message bit the register is shifted left by one and x^16 + x^12 + x^5 + 1
(0x1021) is subtracted when the bit shifted out differs from the message bit.
ISO 14443-3 transmits the register LSB first *as seen by a right-shifting
implementation*, i.e. the value is the bit reversal of this left-shifting
register; CRC_A preset 0x6363, no final complement; CRC_B preset 0xFFFF, one's
complement of the register is sent.  No branches: works on ints and on symbolic
ints alike.  (nfc.clf.device.calculate_crc is the right-shifting 0x8408
formulation - a different algorithm for the same function.)
"""
import nfc.clf.device as devmod

REAL = devmod.calculate_crc         # the implementation as loaded in this process


def bitrev16(x):
    r = 0
    for i in range(16):
        r = r | (((x >> i) & 1) << (15 - i))
    return r


def reference(items, preset):
    """items: message bytes (ints or symbolic ints); preset: register preset
    in the right-shifting convention of ISO 14443-3 Annex B (0x6363/0xFFFF).
    -> register value in the same convention (low byte is transmitted first)"""
    reg = bitrev16(preset)
    for octet in items:
        for pos in range(8):
            inbit = (octet >> pos) & 1
            out = (reg >> 15) & 1
            reg = (reg << 1) & 0xFFFF
            reg = reg ^ ((0 - (out ^ inbit)) & 0x1021)
    return bitrev16(reg)


def crc_a(items):
    return reference(items, 0x6363)


def crc_b(items):
    return reference(items, 0xFFFF) ^ 0xFFFF


# ISO/IEC 14443-3 Annex B examples (bytes as transmitted: low byte first)
ANNEX_B = [
    ('a', [0x00, 0x00], [0xA0, 0x1E]),
    ('a', [0x12, 0x34], [0x26, 0xCF]),
    ('b', [0x00, 0x00, 0x00], [0xCC, 0xC6]),
    ('b', [0x0F, 0xAA, 0xFF], [0xFC, 0xD1]),
]
for _k, _m, _c in ANNEX_B:
    _v = crc_a(_m) if _k == 'a' else crc_b(_m)
    assert [_v & 0xFF, _v >> 8] == _c, "reference CRC disagrees with ISO 14443-3 Annex B"

# vectors of the repository's own tests (tests/test_clf_device.py,
# base_clf_pn53x.py): (kind, message, crc bytes)
REPO_VECTORS = [
    ('a', [0x00, 0x00], [0xA0, 0x1E]),
    ('b', [0x00, 0x00], [0x47, 0x0F]),
    ('a', list(range(16)), [0x77, 0xF5]),
]

_KERNEL = [None]


def kernel():
    from symx import ifconv
    if _KERNEL[0] is None:
        _KERNEL[0] = ifconv.Kernel("nfc.clf.device", "calculate_crc")
    return _KERNEL[0]


def install_summary(sx):
    """symbolic mode: nfc.clf.device.calculate_crc (2^(8n) paths on symbolic
    data) is replaced by its if-converted term (symx.ifconv; C14 proves it
    equal to reference() and validates it against the real function).
    Concrete calls still run the real function.  Native mode: nothing."""
    if sx.mode != 'sym':
        return
    k = kernel()

    def calculate_crc(data, size, reg):
        part = list(data)[:size] if not sx.is_sym(size) else None
        if part is not None and not sx.is_sym(reg) and \
                not any(sx.is_sym(x) for x in part):
            return REAL(data, size, reg)
        return k(data, size, reg)
    devmod.calculate_crc = calculate_crc
