"""IdealCipher - stands in for pyDes.triple_des in nfc.tag.tt3_sony (C20).

pyDes is third-party, table-driven code; symbolic bytes cannot pass through
it.  The harness installs `factory()` as the module attribute `triple_des` of
nfc.tag.tt3_sony in BOTH modes, and the tag simulator uses the same cipher
object, so reader and tag talk about one block cipher E(key, block).

E is *uninterpreted*: the eight result bytes of the k-th block encryption
are the inputs enc<k>[0..7], constrained (sx.assume) against every earlier
call j with a key of the same length by

    (key_k == key_j and block_k == block_j)  <=>  out_k == out_j

i.e. E is a function of (key, block) and no two different (key, block) pairs
give the same ciphertext - the collision-free ideal block cipher.  Key
lengths: a 24-byte key K1K2K3 with K3 == K1 is the 16-byte key K1K2 (as in
real triple DES; decided by one fork), any other 24-byte key is different
from every 16-byte key (results constrained to differ).  The mode of
operation (CBC chaining, ECB) is done here in Python on top of E, the way
pyDes does it.  In native replay the enc<k> values are read from the recorded
assignment through the same sx.bytes names, and the same constraints are
evaluated as plain booleans (a violated one aborts the replay as a
mismatch), so the replay sees exactly the cipher the model chose.

What this does NOT cover: the DES computation itself (pyDes), and
cryptographic strength (no statement about an adversary who cannot see
intermediate cipher values).
"""

ECB = 0
CBC = 1


def _identical(xs, ys):
    """literally the same items (same numbers / same solver terms); a pure
    shortcut - equal but differently written terms take the general path"""
    for x, y in zip(xs, ys):
        if id(x) == id(y):
            continue
        ex, ey = getattr(x, "e", None), getattr(y, "e", None)
        if ex is None and ey is None:
            if x != y:
                return False
        elif ex is None or ey is None or not ex.eq(ey):
            return False
    return True


class IdealCipher(object):
    def __init__(self, sx, prefix="enc"):
        self.sx = sx
        self.prefix = prefix
        self.calls = []          # (key + block items, out items)

    def block(self, key, blk):
        """E(key, blk): key 16 or 24 items, blk 8 items -> list of 8 items"""
        sx = self.sx
        key, blk = list(key), list(blk)
        assert len(blk) == 8 and len(key) in (16, 24)
        if len(key) == 24:
            # two-key triple DES K1,K2 is three-key triple DES K1,K2,K1: one
            # key space.  A 24-byte key whose third part repeats the first IS
            # the 16-byte key (one fork); any other 24-byte key differs from
            # every 16-byte key
            if sx.truth(sx.eq(sx.mkbytes(key[16:24], False),
                              sx.mkbytes(key[0:8], False))):
                key = key[0:16]
        k = len(self.calls)
        args = key + blk
        for aj, oj in self.calls:
            if len(aj) == len(args) and _identical(args, aj):
                # literally the same arguments as an earlier call: the same
                # result, no new unknowns.  (Call numbers still advance, so
                # the names enc<k> do not depend on this shortcut: natively
                # "identical" means equal values, which the constraints below
                # already force to have equal results.)
                self.calls.append((args, oj))
                return list(oj)
        out = list(sx.bytes("%s%d" % (self.prefix, k), 8))
        o = sx.mkbytes(out, False)
        a = sx.mkbytes(args, False)
        conds = []
        for aj, oj in self.calls:
            if len(aj) != len(args):
                # a two-key and a genuine three-key key: different keys
                conds.append(sx.neg(sx.eq(o, sx.mkbytes(oj, False))))
                continue
            same_in = sx.eq(a, sx.mkbytes(aj, False))
            same_out = sx.eq(o, sx.mkbytes(oj, False))
            conds.append(sx.implies(same_in, same_out))
            conds.append(sx.implies(same_out, same_in))
        if conds:
            sx.assume(sx.all(conds),
                      "ideal cipher: E(key, block) is a function and "
                      "collision-free over all calls of a run")
        self.calls.append((args, out))
        return out

    def encrypt(self, key, mode, iv, data):
        data = list(data)
        if len(data) % 8 != 0:
            raise ValueError("Invalid data length, data must be a multiple "
                             "of 8 bytes\n.")
        x = list(iv) if mode == CBC else None
        out = []
        for i in range(0, len(data), 8):
            blk = data[i:i + 8]
            if mode == CBC:
                blk = [p ^ q for p, q in zip(blk, x)]
            x = self.block(key, blk)
            out += x
        return self.sx.mkbytes(out, False)

    def factory(self):
        """the callable to install as `triple_des`"""
        cipher = self

        class triple_des(object):
            def __init__(self, key, mode=ECB, IV=None, pad=None, padmode=1):
                if isinstance(key, str) or isinstance(IV, str):
                    raise ValueError("pyDes can only work with bytes, not "
                                     "Unicode strings.")
                if len(key) not in (16, 24):
                    raise ValueError("Invalid triple DES key size. Key must "
                                     "be either 16 or 24 bytes long")
                if mode == CBC:
                    if IV is None:
                        raise ValueError("You must supply the Initial Value "
                                         "(IV) for ciphering")
                    if len(IV) != 8:
                        raise ValueError("Invalid Initial Value (IV), must "
                                         "be a multiple of 8 bytes")
                self.key, self.mode, self.iv = list(key), mode, IV

            def encrypt(self, data, pad=None, padmode=None):
                if isinstance(data, str):
                    raise ValueError("pyDes can only work with bytes, not "
                                     "Unicode strings.")
                return cipher.encrypt(self.key, self.mode, self.iv, data)

            def decrypt(self, data, pad=None, padmode=None):
                raise NotImplementedError("IdealCipher: decrypt not modelled")
        return triple_des
