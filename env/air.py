"""Air - the RF interface between an NFC-DEP Initiator stack and an NFC-DEP
Target stack (C04, C19), and ListenStub - what a driver's `listen_dep` does.

Written from the contract the drivers in nfc.clf implement towards nfc.dep
(`ContactlessFrontend.sense/listen/exchange`, rcs380.listen_dep,
send_cmd_recv_rsp, send_rsp_recv_cmd):

Initiator side (`IniClf`)
* `sense(RemoteTarget('106A'))` / `sense(RemoteTarget('212F', sensf_req))`:
  the listening device answers at exactly one technology (`Air.tech`); the
  result carries the SENS_RES/SDD_RES/SEL_RES resp. SENSF_RES the target
  handed to listen().  A target with `atr_req` (active mode) is not
  supported by this device (UnsupportedTargetError).
* `exchange(frame, timeout)`: the frame goes to the target; returns the
  response frame (bytearray), raises `nfc.clf.TimeoutError` after the
  virtual clock advanced by *timeout* when nothing came back (request lost,
  target silent, response lost) and `nfc.clf.TransmissionError` when the
  response arrived damaged (that is how every driver reports CRC/parity
  errors).

Target side (`TgtClf`)
* `listen(LocalTarget(atr_res..), timeout)`: ListenStub.  Waits for ATR_REQ,
  answers with the ATR_RES handed in, answers PSL_REQ with PSL_RES and switches
  the bit rate, answers DSL/RLS, filters on the DID of the ATR_REQ, returns a
  LocalTarget(brty, atr_req, [psl_req], dep_req, sens_res.. | sensf_res) on
  the first DEP_REQ; None when nothing (valid) arrives.
* `exchange(frame, timeout)`: transmit *frame* (None: nothing) as response to
  the request received last, then wait for the next request: returns it,
  raises `TransmissionError` for a damaged one, `BrokenLinkError` when the
  initiator has switched its field off.  `timeout == 0`: transmit only,
  returns None.  A request that was lost on the way is simply never seen.

Faults: while `faults_on`, each frame put on the air gets a fault from
{deliver, lose, corrupt} (one lazy `sx.pick` per frame, names fault1, fault2,
...), at most `max_faults` per run and only within the first `window` frames
after switching faults on.

Foreign frames (`arm_foreign`): other devices may share the field.  While the
target waits for a request, at most `budget` times per run (one lazy
`sx.pick` per request the initiator is about to send, names foreign1, ...)
a well-formed frame that is NOT addressed to this target is seen by it first:
a DEP_REQ information PDU (symbolic payload, symbolic PNI 0..3), an attention
DEP_REQ, a DSL_REQ or an RLS_REQ, carrying a DID different from the target's
(any DID byte when the target has none) or no DID while the target has one.
Whatever the target transmits in reply is recorded (`foreign_answered`) and
goes nowhere; then the genuine frame follows.  Takes no virtual time.

Two call stacks, no free-running threads: the initiator stack runs in the
calling thread, the target stack in a second OS thread, and exactly one of
them is runnable at any time (the solver is not re-entrant).  The baton
changes hands only inside IniClf.exchange/sense and TgtClf.exchange/listen.
The target thread waits for the baton before it executes anything.
"""
import threading
import nfc.clf
from symx.envpatch import CLOCK

DELIVER, LOSE, CORRUPT = 0, 1, 2
FAULT_NAMES = ("ok", "lose", "corrupt")
PDU_NAMES = {0: 'ATR', 1: 'ATR', 4: 'PSL', 5: 'PSL', 6: 'DEP', 7: 'DEP',
             8: 'DSL', 9: 'DSL', 10: 'RLS', 11: 'RLS'}
PFB_NAMES = {0: "INF", 1: "INF+", 4: "ACK", 5: "NAK", 8: "ATN", 9: "RTOX"}


class FrameStorm(Exception):
    """more frames than any bounded conversation needs (endless exchange)"""


class _Kill(BaseException):
    """unwinds the parked target stack when the run is abandoned"""


class Frame(object):
    """one frame seen on the air (header fields are concrete by construction
    of the code under test; payload bytes may be symbolic)"""

    def __init__(self, sender, brty, data, step):
        self.sender, self.brty, self.data, self.step = sender, brty, data, step
        self.fault = DELIVER
        off = 1 if brty == '106A' else 0
        n = len(data)
        self.start_byte_ok = off == 0 or (n > 0 and data[0] == 0xF0)
        self.length_byte_ok = n > off and data[off] == n - off
        self.td_len = n - off - 1          # transport data: CMD0 CMD1 Byte0..
        self.pdu = self.kind = self.pni = self.pfb = self.cmd0 = None
        if self.td_len >= 2:
            self.cmd0 = data[off + 1]
            self.pdu = PDU_NAMES.get(data[off + 2], '?')
            if self.pdu == 'DEP' and self.td_len >= 3:
                self.pfb = data[off + 3]
                self.kind = PFB_NAMES.get(self.pfb >> 4, '?')
                self.pni = self.pfb & 3
        self.body = data[off + 1:]

    @property
    def name(self):
        if self.pdu == 'DEP':
            return "%s%s" % (self.kind, self.pni)
        return str(self.pdu)

    def __str__(self):
        s = "%s:%s" % (self.sender, self.name)
        if self.fault:
            s += "!" + FAULT_NAMES[self.fault]
        return s


class Foreign(object):
    """a frame on the air that is addressed to some other device"""
    sender, fault, step, pdu, pni = 'X', DELIVER, None, 'X', None
    start_byte_ok = length_byte_ok = True
    td_len = 0

    def __init__(self, kind, brty, data):
        self.kind, self.brty, self.data = kind, brty, data
        self.answer = None

    @property
    def name(self):
        return "foreign-" + self.kind

    def __str__(self):
        return "X:" + self.kind


class Air(object):
    def __init__(self, sx, tech='106A', max_faults=0, window=40,
                 max_frames=400):
        self.sx = sx
        self.max_frames = max_frames
        self.tech = tech            # technology the target answers polling at
        self.brty = tech            # bit rate / framing currently on the air
        self.max_faults, self.window = max_faults, window
        self.faults_on = False
        self.skip = 0               # frames still delivered intact once armed
        self.nfaults = 0
        self.nfaultable = 0
        self.frames = []            # every Frame, in order of transmission
        self.step = None            # harness-defined protocol step id
        self.local = None           # LocalTarget handed to listen()
        self.enforce_lr = False     # a receiver drops frames longer than the LR it announced
        self.lr = {'I': None, 'T': None}    # transport data limit announced by each side
        self.oversize = 0           # frames dropped for that reason
        self.acm_device = False     # initiator device can sense in active mode
        self.active = False         # activated in active communication mode
        self.late = 0               # target waits that outlasted their timeout
        self.unsolicited = 0        # target transmissions without a request
        self.foreign = None         # dict(kinds, tdid, frame_did, budget)
        self.nsites = 0
        self.foreign_frames = []    # Foreign records, in order
        # rendezvous
        self.cv = threading.Condition()
        self.turn = 'I'
        self.to_tg = None           # ('ok'|'err'|'off', frame)
        self.to_in = None           # Frame
        self.ini_waiting = False
        self.kill = False
        self.tgt_exc = None
        self.tgt_done = True        # until a target stack is started
        self.thread = None

    # ------------------------------------------------------------ scheduling
    def start_target(self, fn):
        """fn() is the target stack; it starts running when the initiator
        stack first senses or transmits"""
        self.tgt_done = False

        def run():
            try:
                with self.cv:
                    while self.turn != 'T':
                        self.cv.wait()
                    if self.kill:
                        return
                fn()
            except _Kill:
                pass
            except BaseException as e:      # incl. engine control flow
                self.tgt_exc = e
            finally:
                with self.cv:
                    self.tgt_done = True
                    self.turn = 'I'
                    self.cv.notify_all()
        self.thread = threading.Thread(target=run, daemon=True)
        self.thread.start()

    def _run_target(self):
        """cv held, initiator thread: let the target stack run until it waits
        for a frame or ends"""
        if self.tgt_done:
            return
        self.turn = 'T'
        self.cv.notify_all()
        while self.turn != 'I':
            self.cv.wait()
        if self.tgt_exc is not None:
            e, self.tgt_exc = self.tgt_exc, None
            raise e

    def _run_initiator(self):
        """cv held, target thread: park until the initiator transmits"""
        self.turn = 'I'
        self.cv.notify_all()
        while self.turn != 'T':
            self.cv.wait()
        if self.kill:
            raise _Kill()

    def field_off(self):
        """initiator is done: its field goes off; the target stack runs to
        its end"""
        with self.cv:
            while not self.tgt_done:
                self.to_tg = ('off', None)
                self._run_target()
        if self.thread is not None:
            self.thread.join(30)

    def abort(self):
        """run abandoned (exception in the initiator stack): unwind the
        parked target stack"""
        with self.cv:
            if self.thread is None or self.tgt_done:
                return
            self.kill = True
            self.tgt_exc = None
            self.turn = 'T'
            self.cv.notify_all()
            n = 0
            while not self.tgt_done and n < 6:
                self.cv.wait(5)
                n += 1
            self.tgt_exc = None
        self.thread.join(5)

    # ---------------------------------------------------------------- faults
    def arm_faults(self, skip=0):
        """from now on frames are subject to faults, except the next *skip*"""
        self.faults_on, self.skip = True, skip

    def _fault(self, frame):
        if not self.faults_on:
            return DELIVER
        if self.skip > 0:
            self.skip -= 1
            return DELIVER
        if self.nfaults >= self.max_faults or self.nfaultable >= self.window:
            return DELIVER
        self.nfaultable += 1
        f = self.sx.pick("fault%d" % self.nfaultable, [DELIVER, LOSE, CORRUPT])
        if f != DELIVER:
            self.nfaults += 1
        frame.fault = f
        return f

    # -------------------------------------------------------- foreign frames
    def arm_foreign(self, kinds, tdid, frame_did, budget=1, window=16):
        """kinds: subset of INF, ATN, DSL, RLS; tdid: the target's DID or
        None; frame_did: the foreign frames carry a DID (different from tdid)"""
        assert frame_did or tdid is not None, "frame would be addressed to the target"
        self.foreign = dict(kinds=list(kinds), tdid=tdid, frame_did=frame_did,
                            budget=budget, window=window)

    def _foreign_frame(self, n, kind):
        sx, cfg = self.sx, self.foreign
        did = []
        if cfg['frame_did']:
            if cfg['tdid'] is None:
                did = [sx.int("foreign%d.did" % n, 0, 255)]
            else:
                d = sx.int("foreign%d.did" % n, 0, 254)
                did = [sx.ite(d >= cfg['tdid'], d + 1, d)]
        if kind == "INF":
            pni = sx.int("foreign%d.pni" % n, 0, 3)
            body = [0xD4, 0x06, (4 if did else 0) | pni] + did + \
                [sx.byte("foreign%d.data[%d]" % (n, i)) for i in range(2)]
        elif kind == "ATN":
            body = [0xD4, 0x06, 0x80 | (4 if did else 0)] + did
        elif kind == "DSL":
            body = [0xD4, 0x08] + did
        else:
            body = [0xD4, 0x0A] + did
        head = [0xF0] if self.brty == '106A' else []
        return Foreign(kind, self.brty,
                       sx.mkbytes(head + [len(body) + 1] + body, True))

    def _maybe_foreign(self):
        """cv held, initiator thread, the target waits for a request"""
        cfg = self.foreign
        if cfg is None or cfg['budget'] <= 0 or self.nsites >= cfg['window'] \
                or self.tgt_done:
            return
        self.nsites += 1
        n = self.nsites
        if not self.sx.pick("foreign%d" % n, [0, 1]):
            return
        cfg['budget'] -= 1
        kind = self.sx.pick("foreign%d.kind" % n, cfg['kinds'])
        rec = self._foreign_frame(n, kind)
        self.frames.append(rec)
        self.foreign_frames.append(rec)
        self.to_tg = ('ok', rec)
        self.to_in = None
        self.ini_waiting = True
        try:
            self._run_target()
        finally:
            self.ini_waiting = False
        rec.answer, self.to_in = self.to_in, None

    # -------------------------------------------------------- initiator side
    def sync_listen(self):
        """let the target stack run up to its listen() call"""
        with self.cv:
            if self.local is None and not self.tgt_done:
                self._run_target()

    LR_TABLE = (64, 128, 192, 254)

    def _note_lr(self, frame):
        """the length reduction values of ATR_REQ (PPi) / ATR_RES (PPt)"""
        if frame.pdu != 'ATR':
            return
        try:
            if frame.sender == 'I' and len(frame.body) > 15:
                self.lr['I'] = self.LR_TABLE[(int(frame.body[15]) >> 4) & 3]
            elif frame.sender == 'T' and len(frame.body) > 16:
                self.lr['T'] = self.LR_TABLE[(int(frame.body[16]) >> 4) & 3]
        except TypeError:
            pass            # (symbolic header octets: C19 has its own obligations)

    def _too_long(self, frame, receiver):
        """enforce_lr: a device drops a DEP frame whose transport data is
        longer than the LR it announced (what a real receiver buffer does)"""
        if not self.enforce_lr or frame.pdu != 'DEP' or self.lr[receiver] is None:
            return False
        if frame.td_len > self.lr[receiver]:
            self.oversize += 1
            return True
        return False

    def ini_exchange(self, data, timeout):
        with self.cv:
            if len(self.frames) >= self.max_frames:
                raise FrameStorm()
            if self.faults_on and self.skip == 0:
                self._maybe_foreign()
            frame = Frame('I', self.brty, bytearray(data), self.step)
            self.frames.append(frame)
            f = self._fault(frame)
            self._note_lr(frame)
            if self._too_long(frame, 'T'):
                f = LOSE
            if f == LOSE or self.tgt_done:
                CLOCK.sleep(timeout)
                raise nfc.clf.TimeoutError("no response (request lost)")
            self.to_tg = ('err' if f == CORRUPT else 'ok', frame)
            self.to_in = None
            self.ini_waiting = True
            try:
                self._run_target()
            finally:
                self.ini_waiting = False
            rsp, self.to_in = self.to_in, None
            if rsp is None:
                CLOCK.sleep(timeout)
                raise nfc.clf.TimeoutError("no response (target silent)")
            f = self._fault(rsp)
            self._note_lr(rsp)
            if self._too_long(rsp, 'I'):
                f = LOSE
            if f == LOSE:
                CLOCK.sleep(timeout)
                raise nfc.clf.TimeoutError("no response (response lost)")
            if f == CORRUPT:
                raise nfc.clf.TransmissionError("crc error")
            return bytearray(rsp.data)

    # ----------------------------------------------------------- target side
    def tgt_exchange(self, data, timeout):
        with self.cv:
            if self.kill:
                raise _Kill()
            if data is not None:
                frame = Frame('T', self.brty, bytearray(data), self.step)
                self.frames.append(frame)
                if self.ini_waiting and self.to_in is None:
                    self.to_in = frame
                else:
                    self.unsolicited += 1
            if timeout is not None and not timeout > 0:
                return None
            t0 = CLOCK.t
            while self.to_tg is None:
                self._run_initiator()
            (kind, frame), self.to_tg = self.to_tg, None
            if timeout is not None and CLOCK.t - t0 > timeout:
                self.late += 1
            if kind == 'off':
                raise nfc.clf.BrokenLinkError("rf off")
            if kind == 'err':
                raise nfc.clf.TransmissionError("crc error")
            return bytearray(frame.data)


class IniClf(object):
    """contactless frontend of the initiator device"""

    def __init__(self, air):
        self.air = air

    def sense(self, *targets, **options):
        air = self.air
        air.sync_listen()
        if len(targets) == 1 and targets[0].atr_req is not None:
            if not air.acm_device:
                raise nfc.clf.UnsupportedTargetError("active communication mode")
            # active communication mode (as a driver's sense_dep): the
            # ATR_REQ is sent in the initiator's own field at the technology
            # of the target object, the ATR_RES comes back in the target's
            tg = targets[0]
            if air.local is None or tg.brty != '106A':
                return None
            air.active = True
            air.brty = tg.brty
            req = bytearray(tg.atr_req)
            frame = bytearray([0xF0, len(req) + 1]) + req
            try:
                rsp = air.ini_exchange(frame, 1.0)
            except nfc.clf.CommunicationError:
                air.active = False
                return None
            if len(rsp) < 4 or rsp[0] != 0xF0 or rsp[1] != len(rsp) - 1:
                air.active = False
                return None
            return nfc.clf.RemoteTarget(tg.brty, atr_req=req,
                                        atr_res=bytearray(rsp[2:]))
        local = air.local
        if local is None:
            return None
        for tg in targets:
            if tg.atr_req is not None or tg.brty != air.tech:
                continue
            if tg.brty == '106A':
                return nfc.clf.RemoteTarget(
                    '106A', sens_res=bytearray(local.sens_res),
                    sdd_res=bytearray(local.sdd_res),
                    sel_res=bytearray(local.sel_res))
            if tg.brty in ('212F', '424F') and tg.sensf_req is not None:
                return nfc.clf.RemoteTarget(
                    tg.brty, sensf_req=tg.sensf_req,
                    sensf_res=bytearray(local.sensf_res))
        return None

    def exchange(self, data, timeout):
        return self.air.ini_exchange(data, timeout)


class TgtClf(object):
    """contactless frontend of the target device; listen() is ListenStub"""

    def __init__(self, air):
        self.air = air

    def exchange(self, data, timeout):
        return self.air.tgt_exchange(data, timeout)

    @staticmethod
    def _verify(brty, data, cmd_set):
        """rcs380.listen_dep.verify_frame: -> transport data or None"""
        off = 1 if brty == '106A' else 0
        if data is None or len(data) < off + 3:
            return None
        if brty == '106A' and data[0] != 0xF0:
            return None
        if data[off] != len(data) - off:
            return None
        if data[off + 1] != 0xD4 or data[off + 2] not in cmd_set:
            return None
        return data[off + 1:]

    def _send_recv(self, data, timeout, cmd_set=(0, 4, 6, 8, 10)):
        air = self.air
        if data is not None:
            head = [0xF0] if air.brty == '106A' else []
            data = bytearray(head + [len(data) + 1]) + bytearray(data)
        rsp = air.tgt_exchange(data, timeout)
        if timeout > 0:
            return self._verify(air.brty, rsp, cmd_set)

    def listen(self, target, timeout):
        air = self.air
        if target.atr_res is None:
            raise nfc.clf.UnsupportedTargetError("ListenStub: DEP only")
        for name, size in (('sens_res', 2), ('sel_res', 1), ('sdd_res', 4)):
            value = getattr(target, name)
            if not value or len(value) != size:
                raise ValueError("%s is required and must be %d byte"
                                 % (name, size))
        if not target.sensf_res or len(target.sensf_res) < 19:
            raise ValueError("sensf_res is required and must be 19 byte")
        if len(target.atr_res) < 17:
            raise ValueError("atr_res is required and must be >= 17 byte")
        air.local = target
        tech = air.tech
        try:
            data = self._send_recv(None, timeout, (0,))
            atr_req = None
            while data is not None and data[1] == 0:
                atr_req = data
                if not 16 <= len(atr_req) <= 64:
                    return None
                data = self._send_recv(target.atr_res, 1.0)
            if atr_req is None:
                return None
            did = atr_req[12] if atr_req[12] > 0 else None
            psl_req = None
            while data is not None and data[1] in (4, 6, 8, 10):
                cmd = data[1]
                if cmd == 6:
                    if did == (data[3] if data[2] >> 2 & 1 else None):
                        result = nfc.clf.LocalTarget(air.brty, dep_req=data)
                        result.atr_req = atr_req
                        result.atr_res = bytearray(target.atr_res)
                        if psl_req is not None:
                            result.psl_req = psl_req
                        if air.active:
                            pass        # no passive mode discovery happened
                        elif tech == '106A':
                            result.sens_res = bytearray(target.sens_res)
                            result.sdd_res = bytearray(target.sdd_res)
                            result.sel_res = bytearray(target.sel_res)
                        else:
                            result.sensf_res = bytearray(target.sensf_res)
                        return result
                elif cmd in (8, 10):
                    if did == (data[2] if len(data) > 2 else None):
                        res = bytearray([0xD5, cmd + 1]) + data[2:3]
                        self._send_recv(res, 0)
                        return None
                elif cmd == 4:
                    if did == (data[2] if data[2] > 0 else None):
                        dsi, dri = data[3] >> 3 & 7, data[3] & 7
                        if dsi != dri or dsi > 2:
                            return None
                        psl_req = data
                        self._send_recv(bytearray([0xD5, 0x05]) + data[2:3], 0)
                        air.brty = ('106A', '212F', '424F')[dsi]
                data = self._send_recv(None, 1.0)
        except nfc.clf.CommunicationError:
            return None
        return None
