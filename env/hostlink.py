"""HostLink - the transport below a real driver Chipset (DESIGN.md 2.7).

It plays the part of nfc.clf.transport.USB/TTY *and* of the chip behind it: a
command frame written by the driver is decoded just enough to learn the
command code, and an ACK frame plus a well-formed response frame are queued
for the following read() calls.  What goes into the response (status bytes,
payload - usually symbolic) is decided by a `chip` callable; faults (IOError
from write/read, truncated / garbled / error frames) by a `Fault` record.

Framings
  'pn53x'   00 00 FF LEN LCS D4 code data DCS 00   (normal/extended), ACK
  'arygon'  the same with the Arygon MCU prefix b"2" on every written frame
  'ccid'    ACR122U: PC_to_RDR_XfrBlock with pseudo-APDU FF 00 00 00 Lc around
            D4 code data; response 80 len .. D5 code+1 data 90 00; no ACK
  'rcs380'  00 00 FF FF FF LENlo LENhi LCS D6 code data DCS 00, ACK

The initialisation answers are the ones used by the repository's driver tests
(tests/test_clf_*.py device fixtures); see init_chip().

Everything here runs in both modes (symbolic: frames are SymBytes built with
sx.mkbytes; native: bytearrays).
"""
import os
import errno

ACK = [0x00, 0x00, 0xFF, 0x00, 0xFF, 0x00]
PN53X_ERROR_FRAME = [0x00, 0x00, 0xFF, 0x01, 0xFF, 0x7F, 0x81, 0x00]
RCS380_ERROR_FRAME = [0x00, 0x00, 0xFF, 0xFF, 0xFF]


def csum(items):
    """(256 - sum) mod 256 of ints / symbolic ints"""
    s = 0
    for x in items:
        s = s + x
    return (0 - s) & 0xFF


def pn53x_frame(body):
    """information frame around body = [TFI, code, data...]; the chip uses
    the extended format when the body does not fit a one-byte LEN"""
    body = list(body)
    n = len(body)
    if n <= 255:
        head = [0, 0, 0xFF, n, (256 - n) & 0xFF]
    else:
        head = [0, 0, 0xFF, 0xFF, 0xFF, n >> 8, n & 0xFF,
                (256 - (n >> 8) - (n & 0xFF)) & 0xFF]
    return head + body + [csum(body), 0]


def rcs380_frame(body):
    body = list(body)
    n = len(body)
    return [0, 0, 0xFF, 0xFF, 0xFF, n & 0xFF, n >> 8,
            (256 - (n & 0xFF) - (n >> 8)) & 0xFF] + body + [csum(body), 0]


def ccid_frame(abdata):
    abdata = list(abdata)
    n = len(abdata)
    return [0x80, n & 0xFF, (n >> 8) & 0xFF, (n >> 16) & 0xFF, n >> 24,
            0, 0, 0, 0x81, 0] + abdata


class Fault(object):
    """what the host link does wrong at host command number `index` (counted
    from begin()):
      'w'       write() raises ioerror(arg)  (arg: errno value or a name from
                ERROR_SHAPES - errors with and without an errno)
      'a'       the read() that should deliver the ACK raises ioerror(arg)
      'r'       ACK is delivered, the read() for the response raises ioerror(arg)
      'short'   the response frame is cut to its first `arg` bytes
      'garble'  the response frame (arg=None) or its first arg bytes are replaced by
                symbolic bytes of the same length
      'err'     the chip answers with its error frame (syntax error)
    """
    def __init__(self, index, kind, arg=None):
        self.index, self.kind, self.arg = index, kind, arg


class SerialException(IOError):
    """pyserial's exception class (serial.serialutil.SerialException is an
    IOError subclass); it is raised with a message only, so errno is None"""


# the shapes in which a transport reports a host-link failure: with an errno
# (nfc.clf.transport's own IOError(errno, strerror)), and without one (an
# exception of the library below passed through: text only, no arguments, a
# subclass instance).  The drivers must not assume error.errno is an int.
ERROR_SHAPES = ('EIO', 'ENODEV', 'ETIMEDOUT', 'EPIPE', 'text', 'noargs',
                'serial')


def ioerror(code):
    """code: an errno value, or one of ERROR_SHAPES"""
    if isinstance(code, str):
        if code == 'text':
            return IOError("device disconnected")
        if code == 'noargs':
            return IOError()
        if code == 'serial':
            return SerialException("device reports readiness to read but "
                                   "returned no data (device disconnected?)")
        code = getattr(errno, code)
    return IOError(code, os.strerror(code))


class HostLink(object):
    TYPE = "USB"
    manufacturer_name = "Company"
    product_name = "Reader"

    def __init__(self, sx, framing, chip):
        assert framing in ('pn53x', 'arygon', 'ccid', 'rcs380')
        self.sx = sx
        self.framing = framing
        self.chip = chip            # callable(link, index, code, data) -> payload items | None
        self.queue = []             # frames (item lists) / exceptions for read()
        self.written = []           # every frame written (as handed in)
        self.commands = []          # (index, code) of decoded host commands
        self.index = 0
        self.fault = None
        self.fault_hit = False      # the fault was applied
        self.starved = 0            # read() calls with nothing to deliver
        self.raw = None             # list of queue entries used instead of the chip's answer (once)
        self.closed = False
        self.tty = self             # arygon: transport.tty.write(b"0au")
        self.port = "/dev/ttyS0"
        self.baudrate = 115200

    # ------------------------------------------------------------ driver side
    def write(self, frame, timeout=0):
        self.written.append(frame)
        items = list(frame)
        if self.framing == 'arygon':
            if not items or items[0] != 0x32:
                return                      # MCU command such as b"0au"
            items = items[1:]
        if self.framing in ('pn53x', 'arygon', 'rcs380') and \
                len(items) == 6 and items == ACK:
            # host ACK: abort the running command, nothing further is sent
            self.queue = []
            return
        dec = self.decode(items)
        if dec is None:
            return
        kind, code, data = dec
        if kind == 'mcu':
            self.queue.append(ccid_frame(self.mcu(items)))
            return
        idx = self.index
        self.index += 1
        self.commands.append((idx, code))
        f = self.fault if (self.fault is not None and
                           self.fault.index == idx) else None
        if f is not None:
            self.fault_hit = True
            if f.kind == 'w':
                raise ioerror(f.arg)
        has_ack = self.framing != 'ccid'
        if f is None and self.raw is not None:
            raw, self.raw = self.raw, None
            self.queue.extend(raw)
            return
        if f is not None and f.kind == 'a':
            self.queue.append(ioerror(f.arg))
            return
        if has_ack:
            self.queue.append(list(ACK))
        if f is not None and f.kind == 'r':
            self.queue.append(ioerror(f.arg))
            return
        if f is not None and f.kind == 'err':
            if self.framing == 'ccid':
                # the PN532 behind the ACR122 reports a syntax error; the
                # reader passes the error frame's data on as D5?? - unknown:
                # model it as the reader's own error status 63 00
                self.queue.append(ccid_frame([0x63, 0x00]))
            elif self.framing == 'rcs380':
                self.queue.append(list(RCS380_ERROR_FRAME))
            else:
                self.queue.append(list(PN53X_ERROR_FRAME))
            return
        payload = self.chip(self, idx, code, data)
        if payload is None:
            return                          # chip stays silent
        rsp = self.encode(code, payload)
        if f is not None and f.kind == 'short':
            rsp = rsp[:f.arg]
        if f is not None and f.kind == 'garble':
            # arg None: every byte arbitrary; arg n: the first n bytes
            n = len(rsp) if f.arg is None else min(f.arg, len(rsp))
            rsp = list(self.sx.bytes("garble%d" % idx, n)) + rsp[n:]
        self.queue.append(rsp)

    def read(self, timeout=0):
        if not self.queue:
            self.starved += 1
            raise ioerror(errno.ETIMEDOUT)
        x = self.queue.pop(0)
        if isinstance(x, Exception):
            raise x
        return self.sx.mkbytes(x, True)

    def close(self):
        self.closed = True

    def open(self, port=None, baudrate=115200):
        pass

    def flushInput(self):
        pass

    # ------------------------------------------------------------ chip side
    def decode(self, items):
        """-> ('cmd', code, data) | ('mcu', None, None) | None.  Only the
        positions are looked at (lengths are concrete); contents may be
        symbolic."""
        if self.framing in ('pn53x', 'arygon'):
            if len(items) < 9 or items[0:3] != [0, 0, 0xFF]:
                return None
            if items[3] == 0xFF and items[4] == 0xFF:
                body = items[8:-2]
            else:
                body = items[5:-2]
            return ('cmd', body[1], body[2:])
        if self.framing == 'rcs380':
            if len(items) < 12 or items[0:5] != [0, 0, 0xFF, 0xFF, 0xFF]:
                return None
            body = items[8:-2]
            return ('cmd', body[1], body[2:])
        # ccid
        if items[0] == 0x62:
            return ('mcu', None, None)
        if items[0] != 0x6F:
            return None
        apdu = items[10:]
        if len(apdu) >= 7 and apdu[0:4] == [0xFF, 0, 0, 0] and apdu[5] == 0xD4:
            return ('cmd', apdu[6], apdu[7:])
        return ('mcu', None, None)

    def mcu(self, items):
        """ACR122U reader-level pseudo APDUs (answers from
        tests/test_clf_acr122.py)"""
        if items[0] == 0x62:
            return [0x3B, 0x00]
        apdu = items[10:]
        if apdu[0:5] == [0xFF, 0x00, 0x48, 0x00, 0x00]:
            return list(b"ACR122U203")
        if apdu[0:4] == [0xFF, 0x00, 0x51, 0x7F]:
            return [0x7F]
        if apdu[0:3] == [0xFF, 0x00, 0x40]:
            return [0x90, 0x02]
        return [0x90, 0x00]

    def encode(self, code, payload):
        payload = list(payload)
        if self.framing in ('pn53x', 'arygon'):
            return pn53x_frame([0xD5, code + 1] + payload)
        if self.framing == 'rcs380':
            return rcs380_frame([0xD7, code + 1] + payload)
        return ccid_frame([0xD5, code + 1] + payload + [0x90, 0x00])

    def begin(self, chip=None, fault=None):
        """start counting host commands for the operation under test"""
        self.index = 0
        self.commands = []
        self.queue = []
        self.fault = fault
        self.fault_hit = False
        self.starved = 0
        if chip is not None:
            self.chip = chip


# ---------------------------------------------------------------------------
# initialisation answers (tests/test_clf_pn531.py ... test_clf_rcs380.py)
# ---------------------------------------------------------------------------
FIRMWARE = {
    'pn531': [0x03, 0x04], 'pn532': [0x32, 0x01, 0x06, 0x07],
    'pn533': [0x33, 0x02, 0x07, 0x07], 'rcs956': [0x33, 0x01, 0x30, 0x07],
    'acr122': [0x32, 0x01, 0x04, 0x07],
}


def init_chip(model):
    """chip callable answering the commands the drivers send from __init__,
    close() and mute()"""
    def chip(link, idx, code, data):
        if model == 'rcs380':
            if code == 0x20:
                return [0x11, 0x01]
            if code == 0x22:
                return [0x00, 0x01]
            return [0x00]                   # SetCommandType, SwitchRF, ...
        if code == 0x00:                    # Diagnose (communication line test)
            return list(data[1:]) if model == 'rcs956' else list(data)
        if code == 0x02:
            return FIRMWARE[model]
        if code == 0x06:                    # ReadRegister (PN533: no EEPROM)
            return [0xFF] if model == 'pn533' else [0x00] * (len(data) // 2)
        if code == 0x08:
            return [0x00]
        return []
    return chip


# ---------------------------------------------------------------------------
# RF receive side of the chip: who checks CRC_A
# ---------------------------------------------------------------------------
CIU_TXMODE, CIU_RXMODE = 0x6302, 0x6303


class Pn53xRfChip(object):
    """PN53x / RC-S956 with its CIU register file and the contactless receive
    path, as far as CRC_A is concerned.

    * WriteRegister stores, ReadRegister returns the stored values (concrete);
    * InListPassiveTarget(106A) activates `target` = (sens_res, sel_res, uid)
      and leaves CIU_TxMode/CIU_RxMode at 80h (TxCRCEn / RxCRCEn set), which
      is what the firmware does for 106 kbps Type A;
    * InCommunicateThru / InDataExchange deliver `air`, the octets the tag
      sent (data + CRC_A): with RxCRCEn (CIU_RxMode bit 7) set the CIU checks
      the CRC, strips it and reports error 02h on a mismatch (also for frames
      too short to hold a CRC, e.g. the 4-bit ACK/NAK); with RxCRCEn clear the
      octets are handed to the host as received, status 00h.
    crc_a: callable(list of octets) -> 16 bit CRC_A (independent reference).
    """

    def __init__(self, sx, model, target, air, crc_a):
        self.sx, self.model = sx, model
        self.target, self.air, self.crc_a = target, list(air), crc_a
        self.regs = {CIU_TXMODE: 0x00, CIU_RXMODE: 0x00}
        self.rxcrc_at_exchange = None
        self.fallback = init_chip(model)

    def __call__(self, link, idx, code, data):
        data = list(data)
        st = [0x00] if self.model == 'pn533' else []
        if code == 0x08:                        # WriteRegister: (addr, value)*
            for i in range(0, len(data) - 2, 3):
                self.regs[(data[i] << 8) | data[i + 1]] = data[i + 2]
            return [0x00]
        if code == 0x06:                        # ReadRegister: addr*
            return st + [self.regs.get((data[i] << 8) | data[i + 1], 0x00)
                         for i in range(0, len(data) - 1, 2)]
        if code == 0x4A:                        # InListPassiveTarget
            sens_res, sel_res, uid = self.target
            self.regs[CIU_TXMODE] = 0x80
            self.regs[CIU_RXMODE] = 0x80
            return [1, 1] + list(sens_res) + list(sel_res) + [len(uid)] + list(uid)
        if code in (0x42, 0x40):
            air = self.air
            n = len(air)
            self.rxcrc_at_exchange = bool(self.regs[CIU_RXMODE] & 0x80)
            if not self.rxcrc_at_exchange:
                return [0x00] + air
            if n < 3:
                return [0x02]
            want = self.crc_a(air[:n - 2])
            if self.sx.truth(self.sx.all([air[n - 2] == (want & 0xFF),
                                          air[n - 1] == (want >> 8)])):
                return [0x00] + air[:n - 2]
            return [0x02]
        return self.fallback(link, idx, code, data)


class Rcs380RfChip(object):
    """RC-S380: InSetProtocol settings are (index, value) pairs, index 2 is
    check_crc; InCommRF checks and strips the CRC iff check_crc != 0 and
    reports CRC_ERROR (00000004h) on a mismatch"""

    def __init__(self, sx, air, crc_a):
        self.sx, self.air, self.crc_a = sx, list(air), crc_a
        self.settings = {}
        self.check_crc_at_exchange = None

    def __call__(self, link, idx, code, data):
        data = list(data)
        if code == 0x02:
            for i in range(0, len(data) - 1, 2):
                self.settings[data[i]] = data[i + 1]
            return [0x00]
        if code == 0x04:
            air = self.air
            n = len(air)
            self.check_crc_at_exchange = bool(self.settings.get(2, 0))
            if not self.check_crc_at_exchange:
                return [0, 0, 0, 0, 0x08] + air
            ok = False
            if n >= 3:
                want = self.crc_a(air[:n - 2])
                ok = self.sx.truth(self.sx.all([air[n - 2] == (want & 0xFF),
                                                air[n - 1] == (want >> 8)]))
            if ok:
                return [0, 0, 0, 0, 0x08] + air[:n - 2]
            return [0x04, 0, 0, 0]
        return [0x00]
